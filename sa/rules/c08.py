"""C08 - not_adjacent / not_adjacent_and_not_segmenting (edge exclusion, generic route, diagonal-rank grid encoding)."""

from __future__ import annotations

import itertools
import time
from typing import Any, List, Optional, Set, Tuple

from ..core.fde import IndexOutOfRange, Obj, Raised, Undecided
from ..core.findings import Report
from ..core.loader import Repo
from .c04 import adjacency, check_grid, ref_vertices_connected
from .encodings import work_now, GRAPHS, Canon, Instance, RefArray, compare, projection
from .graphnative import GRAPH

SHAPES = [(1, 1), (1, 3), (3, 1), (2, 2), (2, 3), (3, 2), (3, 3)]


def grid_edges(h: int, w: int) -> List[Tuple[int, int]]:
    return [(y * w + x, y * w + x + 1) for y in range(h) for x in range(w - 1)] + [(y * w + x, (y + 1) * w + x) for y in range(h - 1) for x in range(w)]


def not_adjacent_ref(edges: List[Tuple[int, int]]):
    cn = Canon({})
    return lambda: [cn.nary("or", [cn.neg(("A", a)), cn.neg(("A", b))]) for a, b in edges]


def valid_patterns(n: int, edges: List[Tuple[int, int]], segmenting: bool) -> Set[Tuple[bool, ...]]:
    adj = adjacency(n, edges)
    out = set()
    for pat in itertools.product([False, True], repeat=n):
        if any(pat[a] and pat[b] for a, b in edges):
            continue
        if segmenting:
            off = [i for i in range(n) if not pat[i]]
            if off:
                seen = {off[0]}
                st = [off[0]]
                while st:
                    v = st.pop()
                    for u in adj[v]:
                        if not pat[u] and u not in seen:
                            seen.add(u)
                            st.append(u)
                if len(seen) != len(off):
                    continue
        out.add(pat)
    return out


def grid_edges_lib(h: int, w: int) -> List[Tuple[int, int]]:
    out = []
    for y in range(h):
        for x in range(w):
            if x < w - 1:
                out.append((y * w + x, y * w + x + 1))
            if y < h - 1:
                out.append((y * w + x, (y + 1) * w + x))
    return out


def longest_border_chain(h: int, w: int) -> Tuple[int, List[Tuple[int, int]]]:
    """longest diagonal chain of cells that starts at a border cell, touches the border nowhere else, never revisits or
    runs next to itself, and leaves the inactive cells connected: such a pattern is admissible, and the schema forces
    strictly increasing ranks along it, so the rank domain needs at least that many values"""
    best: List[Tuple[int, int]] = []
    edges = grid_edges(h, w)

    def border(c: Tuple[int, int]) -> bool:
        return c[0] in (0, h - 1) or c[1] in (0, w - 1)

    def admissible(chain: List[Tuple[int, int]]) -> bool:
        pat = [False] * (h * w)
        for y, x in chain:
            pat[y * w + x] = True
        return tuple(pat) in valid_single(h, w, tuple(pat), edges)

    def rec(chain: List[Tuple[int, int]]) -> None:
        nonlocal best
        if len(chain) > len(best) and admissible(chain):
            best = list(chain)
        if len(chain) >= 7:
            return
        y, x = chain[-1]
        for dy in (-1, 1):
            for dx in (-1, 1):
                c = (y + dy, x + dx)
                if not (0 <= c[0] < h and 0 <= c[1] < w) or c in chain or border(c):
                    continue
                # no other diagonal contact with the chain (keeps it a path in the diagonal graph)
                if sum(1 for d in chain if abs(d[0] - c[0]) == 1 and abs(d[1] - c[1]) == 1) != 1:
                    continue
                rec(chain + [c])

    for y in range(h):
        for x in range(w):
            if border((y, x)):
                rec([(y, x)])
    return len(best), best


def valid_single(h: int, w: int, pat: Tuple[bool, ...], edges: List[Tuple[int, int]]) -> Set[Tuple[bool, ...]]:
    n = h * w
    if any(pat[a] and pat[b] for a, b in edges):
        return set()
    adj = adjacency(n, edges)
    off = [i for i in range(n) if not pat[i]]
    if off:
        seen = {off[0]}
        st = [off[0]]
        while st:
            v = st.pop()
            for u in adj[v]:
                if not pat[u] and u not in seen:
                    seen.add(u)
                    st.append(u)
        if len(seen) != len(off):
            return set()
    return {pat}


def ref_diagonal(h: int, w: int):
    if h <= 1 or w <= 1:
        cn0 = Canon({})
        edges = grid_edges_lib(h, w)
        refs, cons_c = ref_vertices_connected(h * w, edges, False, act=lambda i: cn0.neg(("A", i)))
        cons_a = not_adjacent_ref(grid_edges(h, w))
        return refs, (lambda: cons_a() + cons_c())
    cn = Canon({})
    A = lambda y, x: ("A", y * w + x)  # noqa: E731
    R = lambda y, x: ("rank", y * w + x)  # noqa: E731

    def cons() -> List[Tuple]:
        out = not_adjacent_ref(grid_edges(h, w))()
        for y in range(h):
            for x in range(w):
                less = []
                nonzero = False
                for dy in (-1, 1):
                    for dx in (-1, 1):
                        y2, x2 = y + dy, x + dx
                        if 0 <= y2 < h and 0 <= x2 < w:
                            less.append(("b2i", cn.nary("and", [cn.cmp("<", R(y2, x2), R(y, x)), A(y2, x2)])))
                            if (y2, x2) < (y, x):
                                out.append(cn.cmp("!=", R(y2, x2), R(y, x)))
                        else:
                            nonzero = True
                out.append(cn.nary("or", [cn.neg(A(y, x)), cn.cmp("<=", cn.add(less), ("c", 0 if nonzero else 1))]))
        return out

    return [RefArray("rank", "i", h * w, need=(h * w - 1) // 2 + 1)], cons


def run(repo: Repo, rep: Report) -> None:
    from .encodings import engine_selfcheck
    engine_selfcheck(rep)
    rep.rule("ENC-S", "not_adjacent excludes exactly the graph's edges (grid form = grid graph's edges); the generic not-segmenting route composes it with connectivity of the complement; the grid route posts the reference diagonal-rank schema")
    rep.saw(GRAPH, "active_vertices_not_adjacent")
    from .encodings import standard_history
    standard_history(repo, rep, "active_vertices_not_adjacent", "vertices")
    standard_history(repo, rep, "active_vertices_not_adjacent_and_not_segmenting", "vertices")
    # ---- not_adjacent, graph and grid forms -------------------------------------------------------
    try:
        bad = None
        k = 0
        for gname, n, edges in GRAPHS:
            k += 1
            inst = Instance(repo)
            act = inst.user_bools(n, "A")
            inst.w.call("active_vertices_not_adjacent", inst.s, act, inst.w.graph(n, edges))
            same, diff = compare(inst, [], not_adjacent_ref(edges))
            if not same:
                bad = f"active_vertices_not_adjacent on graph '{gname}' (edges {edges}): {diff}"
                break
        for h, w in SHAPES:
            if bad:
                break
            k += 1
            inst = Instance(repo)
            arr = inst.s.attrs["bool_array"]((h, w))
            inst.arrays[-1]["user"] = "A"
            inst.w.call("active_vertices_not_adjacent", inst.s, arr)
            same, diff = compare(inst, [], not_adjacent_ref(grid_edges(h, w)))
            if not same:
                bad = f"active_vertices_not_adjacent on a {h}x{w} BoolArray2D: the excluded pairs are not the grid graph's edges: {diff}"
        if bad:
            rep.finding("ENC-S", GRAPH, "active_vertices_not_adjacent", "not_adjacent pairs", bad)
        else:
            rep.ok("ENC-S", f"active_vertices_not_adjacent: exactly one exclusion per edge on {k} graphs/grids (1xN and Nx1 included)", points=k)
    except Undecided as ex:
        rep.undecide("ENC-S", f"not_adjacent: {ex}")
    except (Raised, IndexOutOfRange) as ex:
        rep.finding("ENC-S", GRAPH, "active_vertices_not_adjacent", "raises", f"raises {ex}")
    # ---- generic route ------------------------------------------------------------------------------
    try:
        deviating = []
        n_ok = 0
        for gname, n, edges in GRAPHS:
            inst = Instance(repo)
            act = inst.user_bools(n, "A")
            inst.w.call("active_vertices_not_adjacent_and_not_segmenting", inst.s, act, inst.w.graph(n, edges))
            cn = Canon({})
            refs, cons_c = ref_vertices_connected(n, edges, False, act=lambda i: cn.neg(("A", i)))
            cons_a = not_adjacent_ref(edges)
            same, diff = compare(inst, refs, lambda: cons_a() + cons_c())
            if same:
                n_ok += 1
            else:
                deviating.append((gname, n, edges, inst, diff))
        if not deviating:
            rep.ok("ENC-S", f"not_adjacent_and_not_segmenting (graph form): not_adjacent + connectivity of ~is_active on the same graph, {n_ok} graphs", points=n_ok)
        else:
            _triage(rep, "active_vertices_not_adjacent_and_not_segmenting(graph form)", deviating)
    except Undecided as ex:
        rep.undecide("ENC-S", f"generic route: {ex}")
    except (Raised, IndexOutOfRange) as ex:
        rep.finding("ENC-S", GRAPH, "active_vertices_not_adjacent_and_not_segmenting", "raises", f"raises {ex}")
    # ---- grid route ------------------------------------------------------------------------------------
    xitems: List[Any] = []
    try:
        deviating = []
        n_ok = 0
        for h, w in SHAPES:
            inst = Instance(repo)
            arr = inst.s.attrs["bool_array"]((h, w))
            inst.arrays[-1]["user"] = "A"
            inst.w.call("active_vertices_not_adjacent_and_not_segmenting", inst.s, arr)
            refs, cons = ref_diagonal(h, w)
            same, diff = compare(inst, refs, cons)
            if h * w <= 9:
                xitems.append((f"{h}x{w} grid", inst, [a for a in inst.arrays if a["user"]][0]["ids"],
                               (lambda h=h, w=w: valid_patterns(h * w, grid_edges(h, w), True))))
            if same:
                n_ok += 1
            else:
                deviating.append((f"{h}x{w} grid", h * w, grid_edges(h, w), inst, diff))
        if not deviating:
            rep.ok("ENC-S", f"not_adjacent_and_not_segmenting (grid form): reference diagonal-rank schema on {n_ok} shapes", points=n_ok)
            from .encodings import cross_check

            cross_check(rep, "active_vertices_not_adjacent_and_not_segmenting(grid form)", "active_vertices_not_adjacent_and_not_segmenting", xitems)
        else:
            _triage(rep, "active_vertices_not_adjacent_and_not_segmenting(grid form)", deviating)
    except Undecided as ex:
        rep.undecide("ENC-S", f"grid route: {ex}")
    except (Raised, IndexOutOfRange) as ex:
        rep.finding("ENC-S", GRAPH, "active_vertices_not_adjacent_and_not_segmenting", "raises", f"raises {ex}")
    # ---- rank-domain sufficiency on larger boards ------------------------------------------------------
    rep.rule("ENC-D", "grid form: the rank domain has at least as many values as the longest admissible border-anchored diagonal chain needs (strictly increasing ranks along it)")
    try:
        bad = None
        k = 0
        for h, w in ((3, 3), (3, 4), (4, 4), (4, 5), (5, 4), (5, 5)):
            k += 1
            inst = Instance(repo)
            arr = inst.s.attrs["bool_array"]((h, w))
            inst.arrays[-1]["user"] = "A"
            inst.w.call("active_vertices_not_adjacent_and_not_segmenting", inst.s, arr)
            ints = [a for a in inst.aux_arrays() if a["kind"] == "i"]
            if len(ints) != 1:
                continue
            size = ints[0]["hi"] - ints[0]["lo"] + 1
            need, chain = longest_border_chain(h, w)
            if size < need:
                bad = (f"{h}x{w} board: the rank variables range over {size} values, but the admissible pattern with active cells {chain} "
                       f"(a diagonal chain hanging from the border) forces {need} strictly increasing ranks: that pattern is rejected")
                break
        if bad:
            rep.finding("ENC-D", GRAPH, "active_vertices_not_adjacent_and_not_segmenting", "rank domain (grid form)", bad)
        else:
            rep.ok("ENC-D", f"rank domain covers the longest border-anchored diagonal chain on {k} boards up to 5x5", points=k)
    except Undecided as ex:
        rep.undecide("ENC-D", str(ex))
    except (Raised, IndexOutOfRange) as ex:
        rep.finding("ENC-D", GRAPH, "active_vertices_not_adjacent_and_not_segmenting", "raises", f"raises {ex}")
    check_grid(repo, rep)
    rep.assume("the diagonal-rank schema (rank range (h*w-1)//2+1, border cells forced roots, at most one lower diagonal neighbour, distinct "
               "diagonal ranks) is exact for 'no two adjacent and complement connected' on grids: argument in DESIGN.md C08")


def _triage(rep: Report, label: str, devs: List[Any]) -> None:
    undecided = None
    t0 = work_now()
    for gname, n, edges, inst, diff in sorted(devs, key=lambda d: (d[1], len(d[2]))):
        if work_now() - t0 > 40:
            break
        ids = [a for a in inst.arrays if a["user"]][0]["ids"]
        proj = projection(inst, ids, budget_s=6.0)
        if proj is None:
            undecided = f"{label} on '{gname}': deviates from the reference schema ({diff}); projection enumeration exceeded its budget"
            continue
        want = valid_patterns(n, edges, True)
        acc, rej = sorted(proj - want), sorted(want - proj)
        if acc or rej:
            w_ = acc[0] if acc else rej[0]
            rep.finding("ENC-S", GRAPH, "active_vertices_not_adjacent_and_not_segmenting", f"{label} encoding",
                        f"{label} on '{gname}': deviates from the reference schema ({diff}) and {'admits' if acc else 'rejects'} the pattern "
                        f"{[int(b) for b in w_]}, which {'violates' if acc else 'satisfies'} 'no two adjacent active cells and the inactive cells connected'")
            return
    rep.undecide("ENC-S", undecided or f"{label}: deviates from the reference schema ({devs[0][4]}) but no differing pattern was found")
