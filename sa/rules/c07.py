"""C07 - variable-group division with / without borders (reference schemas, inner-frame dualisation)."""

from __future__ import annotations

import itertools
import time
from typing import Any, Dict, List, Optional, Set, Tuple

from ..core.fde import IndexOutOfRange, Obj, Raised, Undecided
from ..core.findings import Report
from ..core.loader import Repo
from . import c20, graphnative
from .c06 import incidence
from .encodings import work_now, GRAPHS, LAST_MATCH, Canon, Instance, RefArray, compare, projection
from .graphnative import GRAPH

SMALL = [g for g in GRAPHS if g[1] <= 4] + [("triangle with tail", 4, [(0, 1), (1, 2), (0, 2), (2, 3)])]


def partitions_ok(n: int, edges: List[Tuple[int, int]], sizes: List[Optional[int]]) -> Set[frozenset]:
    """all partitions of the vertices into connected blocks respecting the per-vertex size requirements"""
    adj: List[Set[int]] = [set() for _ in range(n)]
    for a, b in edges:
        adj[a].add(b)
        adj[b].add(a)
    out = set()

    def rec(i: int, blocks: List[List[int]]) -> None:
        if i == n:
            for b in blocks:
                seen = {b[0]}
                st = [b[0]]
                while st:
                    v = st.pop()
                    for u in adj[v]:
                        if u in b and u not in seen:
                            seen.add(u)
                            st.append(u)
                if len(seen) != len(b):
                    return
                if any(sizes[v] is not None and sizes[v] != len(b) for v in b):
                    return
            out.add(frozenset(frozenset(b) for b in blocks))
            return
        for b in blocks:
            b.append(i)
            rec(i + 1, blocks)
            b.pop()
        blocks.append([i])
        rec(i + 1, blocks)
        blocks.pop()

    rec(0, [])
    return out


def ref_groups(n: int, edges: List[Tuple[int, int]], sizes: Any, borders: bool, bconsts: Optional[Dict[int, bool]] = None):
    """sizes: None | int | term (one symbolic size for all) | list of Optional[int | term]; a term is ("S", k)"""
    cn = Canon({})
    G = lambda i: ("gid", i)  # noqa: E731
    R = lambda i: ("rank", i)  # noqa: E731
    Z = lambda i: ("root", i)  # noqa: E731
    A = lambda e: ("tree", e)  # noqa: E731
    DS = lambda i: ("down", i)  # noqa: E731
    TS = lambda i: ("total", i)  # noqa: E731
    B = lambda e: ("c", bconsts[e]) if bconsts and e in bconsts else ("B", e)  # noqa: E731
    inc = incidence(n, edges)

    def cons() -> List[Tuple]:
        out = []
        for i in range(n):
            out.append(cn.iff(Z(i), cn.cmp("==", R(i), ("c", 0))))
            out.append(cn.nary("or", [cn.neg(Z(i)), cn.cmp("==", G(i), ("c", i))]))
            for j, e in inc[i]:
                out.append(cn.nary("or", [cn.neg(A(e)), cn.cmp("!=", R(j), R(i))]))
            cnt = cn.add([("b2i", cn.nary("and", [A(e), cn.cmp("<", R(j), R(i))])) for j, e in inc[i]])
            out.append(cn.cmp("==", cnt, ("b2i", cn.neg(Z(i)))))
        for e, (u, v) in enumerate(edges):
            out.append(cn.nary("or", [cn.neg(A(e)), cn.cmp("==", G(u), G(v))]))
        if sizes is not None:
            for i in range(n):
                out.append(cn.cmp("<=", DS(i), TS(i)))
                out.append(cn.nary("or", [cn.neg(Z(i)), cn.cmp("==", DS(i), TS(i))]))
                terms = [("ite", cn.nary("and", [A(e), cn.cmp(">", R(j), R(i))]), DS(j), ("c", 0)) for j, e in inc[i]]
                out.append(cn.cmp("==", cn.add(terms + [("c", 1)]), DS(i)))
                scalar = isinstance(sizes, (int, tuple))
                s = sizes if scalar else sizes[i]
                if s is not None:
                    out.append(cn.cmp("==", TS(i), s if isinstance(s, tuple) else ("c", s)))
            if not isinstance(sizes, (int, tuple)):
                for e, (u, v) in enumerate(edges):
                    out.append(cn.nary("or", [cn.neg(A(e)), cn.cmp("==", TS(u), TS(v))]))
        if borders:
            for e, (u, v) in enumerate(edges):
                out.append(cn.iff(B(e), cn.cmp("!=", G(u), G(v))))
        return out

    arrays = [RefArray("gid", "i", n, exact=(0, n - 1)), RefArray("rank", "i", n, need=n), RefArray("root", "b", n), RefArray("tree", "b", len(edges))]
    if sizes is not None:
        arrays += [RefArray("down", "i", n, exact=(1, n)), RefArray("total", "i", n, exact=(1, n))]
    return arrays, cons


def gid_partition(gids: Tuple[int, ...]) -> frozenset:
    blocks: Dict[int, List[int]] = {}
    for v, g in enumerate(gids):
        blocks.setdefault(g, []).append(v)
    return frozenset(frozenset(b) for b in blocks.values())


def border_partition(n: int, edges: List[Tuple[int, int]], flags: Tuple[bool, ...]) -> Optional[frozenset]:
    parent = list(range(n))

    def find(x: int) -> int:
        while parent[x] != x:
            parent[x] = parent[parent[x]]
            x = parent[x]
        return x

    for f, (a, b) in zip(flags, edges):
        if not f:
            parent[find(a)] = find(b)
    for f, (a, b) in zip(flags, edges):
        if f and find(a) == find(b):
            return None
    blocks: Dict[int, List[int]] = {}
    for v in range(n):
        blocks.setdefault(find(v), []).append(v)
    return frozenset(frozenset(b) for b in blocks.values())


def run(repo: Repo, rep: Report) -> None:
    from .encodings import engine_selfcheck
    engine_selfcheck(rep)
    rep.rule("ENC-S", "variable-group division posts the reference root/rank/tree-edge/size-accounting schema; the border form ties each border flag to 'different group ids' or uses the native operator (deviations triaged by projection)")
    rep.rule("ALG-4D", "grid/border form: the inner frame is dualised so that each border variable lies on the edge between the two cells it separates")
    rep.saw(GRAPH, "_division_connected_variable_groups")
    size_cases = lambda n: [None, 2, [None] * n, [2] + [None] * (n - 1), [1] * n, [n] + [None] * (n - 1), [1] + [None] * (n - 1),  # noqa: E731
                            "var", "varlist", "array"]
    # ---- without borders -----------------------------------------------------------------------
    deviating = []
    xitems: List[Any] = []
    n_ok = 0
    try:
        for gname, n, edges in SMALL:
            for sizes in size_cases(n):
                inst = Instance(repo)
                g = inst.w.graph(n, edges)
                arg = sizes
                if isinstance(sizes, str):
                    # sizes given as the caller's own integer variables: one IntVar, a list of IntVars, an IntArray1D
                    sv = inst.user_ints(1 if sizes == "var" else n, 1, n, "S")
                    arg = sv.attrs["data"][0] if sizes == "var" else (list(sv.attrs["data"]) if sizes == "varlist" else sv)
                    sizes = ("S", 0) if sizes == "var" else [("S", k) for k in range(n)]
                ret = inst.w.call("division_connected_variable_groups", inst.s, graph=g, group_size=arg)
                refs, cons = ref_groups(n, edges, sizes, False)
                same, diff = compare(inst, refs, cons)
                ret_ids = [v.attrs.get("id") for v in ret.attrs["data"]] if isinstance(ret, Obj) and "data" in ret.attrs else None
                if same and (ret_ids is None or [LAST_MATCH.get(i) for i in ret_ids] != [("gid", k) for k in range(n)]):
                    same, diff = False, f"the returned value is not the group-id array but {[LAST_MATCH.get(i) for i in (ret_ids or [])]}"
                if same and n <= 3 and ret_ids and not any(isinstance(x, tuple) for x in (sizes if isinstance(sizes, list) else [sizes])):
                    szl = [sizes] * n if isinstance(sizes, int) else ([None] * n if sizes is None else list(sizes))
                    xitems.append((f"graph '{gname}' {edges}, group_size={sizes}", inst, list(ret_ids), szl, n, edges))
                if same:
                    n_ok += 1
                else:
                    deviating.append((f"{gname}, group_size={sizes}", n, edges, inst, diff, sizes, ret_ids))
        # ---- grid forms (shape= / a 2-D size table): the reference schema on the row-major grid graph of *that* orientation ----
        for h, w in ((2, 3), (3, 2), (1, 3), (2, 2)):
            n = h * w
            want_edges = sorted([(y * w + x, y * w + x + 1) for y in range(h) for x in range(w - 1)] + [(y * w + x, (y + 1) * w + x) for y in range(h - 1) for x in range(w)])
            # the edge *order* is taken from the library's own _grid_graph (ALG-6 in C04 decides that it is this edge set)
            gg = Instance(repo).w.call("_grid_graph", h, w)
            edges = [tuple(e) for e in gg.attrs["edges"]]
            if sorted(tuple(sorted(e)) for e in edges) != want_edges:
                rep.finding("ALG-6", GRAPH, "_grid_graph", "grid graph", f"_grid_graph({h}, {w}) has edges {edges}; expected the row-major orthogonal grid graph")
                continue
            table = [[(2 if (y, x) == (0, 0) else None) for x in range(w)] for y in range(h)]
            for form, kw, sizes in (("shape only", {"shape": (h, w)}, None), ("shape + constant size", {"shape": (h, w), "group_size": 2}, 2),
                                    ("2-D size table", {"group_size": table}, [2] + [None] * (n - 1))):
                inst = Instance(repo)
                ret = inst.w.call("division_connected_variable_groups", inst.s, **kw)
                refs, cons = ref_groups(n, edges, sizes, False)
                same, diff = compare(inst, refs, cons)
                ok_ret = isinstance(ret, Obj) and ret.attrs.get("__class__") == "IntArray2D" and tuple(ret.attrs.get("shape", ())) == (h, w)
                ret_ids = [v.attrs.get("id") for v in ret.attrs["data"]] if isinstance(ret, Obj) and "data" in ret.attrs else None
                if same and (not ok_ret or [LAST_MATCH.get(i) for i in (ret_ids or [])] != [("gid", k) for k in range(n)]):
                    same, diff = False, (f"the returned value is {getattr(ret, 'attrs', {}).get('__class__')} of shape {getattr(ret, 'attrs', {}).get('shape')} holding "
                                         f"{[LAST_MATCH.get(i) for i in (ret_ids or [])]}, not the {h}x{w} array of group ids in row-major order")
                if same:
                    n_ok += 1
                else:
                    deviating.append((f"{h}x{w} grid form ({form}), group_size={sizes}", n, edges, inst, diff, sizes, ret_ids))
    except Undecided as ex:
        rep.undecide("ENC-S", f"division_connected_variable_groups: {ex}")
        deviating = []
        n_ok = -1
    except (Raised, IndexOutOfRange) as ex:
        rep.finding("ENC-S", GRAPH, "_division_connected_variable_groups", "raises", f"posting the constraint raises {ex}")
        n_ok = -1
    if n_ok >= 0 and not deviating:
        rep.ok("ENC-S", f"division_connected_variable_groups: reference schema on {n_ok} (graph, group_size) instances, group ids returned", points=n_ok)
        rep.rule("ENC-X", "on the small instances the set of partitions realisable by the group ids equals the set of valid partitions (guards the reference schema; can only add violations)")
        t0 = work_now()
        checked = 0
        for desc, inst, ids, szl, n, edges in xitems:
            if work_now() - t0 > 10:
                break
            proj = projection(inst, ids, budget_s=2.5)
            if proj is None:
                continue
            checked += 1
            got_parts = {gid_partition(g) for g in proj}
            want_parts = partitions_ok(n, edges, szl)
            if got_parts != want_parts:
                w_ = sorted(map(sorted, next(iter((got_parts - want_parts) or (want_parts - got_parts)))))
                rep.finding("ENC-X", GRAPH, "_division_connected_variable_groups", "variable groups semantics",
                            f"division_connected_variable_groups on [{desc}]: the partition {w_} is {'realisable' if got_parts - want_parts else 'not realisable'} "
                            f"by the group ids, but it is {'not ' if got_parts - want_parts else ''}a valid division")
                break
        else:
            rep.ok("ENC-X", f"division_connected_variable_groups: realisable partitions == valid partitions on {checked} small instances", points=checked)
    elif deviating:
        _triage(rep, "division_connected_variable_groups", deviating, with_borders=False)
    # ---- with borders ---------------------------------------------------------------------------
    for native in (False, True):
        label = f"division_connected_variable_groups_with_borders({'primitive' if native else 'auxiliary'} route)"
        deviating = []
        n_ok = 0
        try:
            for gname, n, edges in SMALL:
                # border flags as the caller's variables, and with Python constants among them (a border that is given: first flag True,
                # last flag False) - the flag is then a plain bool, on which `~`, `==` and `!=` are Python's own operators
                variants: List[Tuple[Any, Dict[int, bool], str]] = [(sz, {}, "") for sz in ([None] * n, [2] + [None] * (n - 1), [1] * n, [1] + [None] * (n - 1))]
                if edges and not native:
                    variants += [([None] * n, {0: True}, ", border 0 given as the constant True"),
                                 ([None] * n, {len(edges) - 1: False}, f", border {len(edges) - 1} given as the constant False")]
                for sizes, bconsts, note in variants:
                    inst = Instance(repo, div=native)
                    brd = inst.user_bools(len(edges), "B")
                    g = inst.w.graph(n, edges)
                    flags: Any = brd if not bconsts else [bconsts.get(k, v) for k, v in enumerate(brd.attrs["data"])]
                    inst.w.call("division_connected_variable_groups_with_borders", inst.s, group_size=list(sizes), is_border=flags, graph=g)
                    if native:
                        cn = Canon({})
                        refs = []
                        cons = (lambda n=n, edges=edges, sizes=sizes, cn=cn: [cn.native(
                            "GRAPH_DIVISION", [("c", n), ("c", len(edges))] + [("c", s) for s in sizes] + [("c", x) for e in edges for x in e]
                            + [("B", k) for k in range(len(edges))])])
                    else:
                        refs, cons = ref_groups(n, edges, list(sizes), True, bconsts)
                    same, diff = compare(inst, refs, cons)
                    if same:
                        n_ok += 1
                    else:
                        deviating.append((f"{gname}, group_size={sizes}{note}", n, edges, inst, diff, list(sizes), bconsts or None))
        except Undecided as ex:
            rep.undecide("ENC-S", f"{label}: {ex}")
            continue
        except (Raised, IndexOutOfRange) as ex:
            rep.finding("ENC-S", GRAPH, "_division_connected_variable_groups_with_borders", f"{label} raises", f"posting the constraint raises {ex}")
            continue
        if not deviating:
            rep.ok("ENC-S", f"{label}: reference schema on {n_ok} instances", points=n_ok)
        else:
            _triage(rep, label, deviating, with_borders=True)
    # ---- grid form ------------------------------------------------------------------------------
    try:
        bad = None
        k = 0
        for h, w in ((1, 2), (2, 1), (2, 2), (2, 3)):
            k += 1
            inst = Instance(repo, div=True)
            size = inst.s.attrs["int_array"]((h, w), 1, h * w)
            inst.arrays[-1]["user"] = "S"
            inner = inst.w.cw.new("BoolInnerGridFrame", inst.s, h, w)
            ih, iv = inner.attrs["horizontal"], inner.attrs["vertical"]
            inst.w.call("division_connected_variable_groups_with_borders", inst.s, group_size=size, is_border=inner)
            nat = inst.w.natives(inst.s)
            if len(nat) != 1:
                bad = f"{h}x{w}: {len(nat)} native constraints"
                break
            ops = nat[0].attrs["operands"]
            n, m = ops[0], ops[1]
            sizes = [o.attrs.get("id") for o in ops[2:2 + n]]
            ends = ops[2 + n:2 + n + 2 * m]
            brd = [o.attrs.get("id") for o in ops[2 + n + 2 * m:]]
            got = {b: tuple(sorted((ends[2 * i], ends[2 * i + 1]))) for i, b in enumerate(brd)}
            want = {}
            for r in range(h - 1):
                for c in range(w):
                    want[ih.attrs["data"][r * w + c].attrs["id"]] = (r * w + c, (r + 1) * w + c)
            for r in range(h):
                for c in range(w - 1):
                    want[iv.attrs["data"][r * (w - 1) + c].attrs["id"]] = (r * w + c, r * w + c + 1)
            if n != h * w or sizes != [v.attrs["id"] for v in size.attrs["data"]] or got != want:
                bad = (f"{h}x{w} board: native operands give sizes {sizes} and border->cell-pair map {got}; expected the row-major size cells and {want}")
                break
        if bad:
            rep.finding("ALG-4D", GRAPH, "division_connected_variable_groups_with_borders", "grid form", bad)
        else:
            rep.ok("ALG-4D", f"{k} boards: each border variable of the inner frame is attached to the edge between the two cells it separates; sizes row-major", points=k)
    except Undecided as ex:
        rep.undecide("ALG-4D", str(ex))
    except (Raised, IndexOutOfRange) as ex:
        rep.finding("ALG-4D", GRAPH, "division_connected_variable_groups_with_borders", "grid form", f"raises {ex}")
    # shape form of division_connected_variable_groups
    try:
        inst = Instance(repo)
        ret = inst.w.call("division_connected_variable_groups", inst.s, shape=(2, 3))
        if isinstance(ret, Obj) and ret.attrs.get("__class__") == "IntArray2D" and tuple(ret.attrs["shape"]) == (2, 3):
            rep.ok("ALG-4D", "division_connected_variable_groups(shape=(2, 3)) returns a 2x3 IntArray2D of group ids", nontrivial=False)
        else:
            rep.finding("ALG-4D", GRAPH, "division_connected_variable_groups", "shape form", f"shape=(2, 3) returns {getattr(ret, 'attrs', {}).get('__class__')} {getattr(ret, 'attrs', {}).get('shape')}")
    except (Undecided, Raised, IndexOutOfRange) as ex:
        rep.undecide("ALG-4D", f"shape form: {ex}")
    from .encodings import history_rule
    calls = []
    for gname, n, edges in (("path of 3", 3, [(0, 1), (1, 2)]), ("triangle", 3, [(0, 1), (1, 2), (0, 2)]), ("star of 4", 4, [(0, 1), (0, 2), (0, 3)])):
        calls.append((f"graph '{gname}', size 2", lambda inst, n=n, edges=edges: inst.w.call("division_connected_variable_groups", inst.s, graph=inst.w.graph(n, edges), group_size=2)))
        calls.append((f"graph '{gname}' with borders", lambda inst, n=n, edges=edges: inst.w.call(
            "division_connected_variable_groups_with_borders", inst.s, group_size=[None] * n, is_border=inst.user_bools(len(edges), "B"), graph=inst.w.graph(n, edges))))
    for h, w in ((2, 3), (3, 2), (1, 3)):
        calls.append((f"shape=({h}, {w})", lambda inst, h=h, w=w: inst.w.call("division_connected_variable_groups", inst.s, shape=(h, w))))
    history_rule(repo, rep, "division_connected_variable_groups", calls)
    c20.check_gating(repo, rep)
    graphnative.check_native_layout(repo, rep)
    rep.assume("reference schema exact (DESIGN.md C07); uniform in the graph; native graph-division has its documented meaning")


def _set_partitions(n: int):
    def rec(i: int, blocks: List[List[int]]):
        if i == n:
            yield [list(b) for b in blocks]
            return
        for b in blocks:
            b.append(i)
            yield from rec(i + 1, blocks)
            b.pop()
        blocks.append([i])
        yield from rec(i + 1, blocks)
        blocks.pop()

    yield from rec(0, [])


def _partition_witness(inst: Any, ids: List[int], n: int, want_parts: Set[frozenset], budget_s: float = 25.0):
    """("acc", partition, group ids): an invalid partition that the posted constraints realise (a satisfying extension exists);
    ("rej", partition, None): a valid partition that no injective naming of its blocks realises; None: nothing found in the budget.
    Each question is one Extender.sat call with all group ids fixed."""
    from .encodings import Extender

    ext = Extender(inst, budget_s)
    parts = list(_set_partitions(n))
    try:
        # accepted-but-invalid first: blocks named after their own vertices (what a correct encoding produces), cheapest witnesses
        for blocks in parts:
            fs = frozenset(frozenset(b) for b in blocks)
            if fs in want_parts:
                continue
            for names in itertools.product(*blocks):
                if len(set(names)) < len(names):
                    continue
                gid = {ids[v]: names[k] for k, b in enumerate(blocks) for v in b}
                if ext.sat(gid):
                    return "acc", sorted(map(sorted, blocks)), [gid[i] for i in ids]
        for blocks in parts:
            fs = frozenset(frozenset(b) for b in blocks)
            if fs not in want_parts:
                continue
            doms = [ext.doms[ids[b[0]]] for b in blocks]
            found = False
            for names in itertools.product(*doms):
                if len(set(names)) < len(names):
                    continue
                if ext.sat({ids[v]: names[k] for k, b in enumerate(blocks) for v in b}):
                    found = True
                    break
            if not found:
                return "rej", sorted(map(sorted, blocks)), None
    except TimeoutError:
        return None
    return None


def _triage(rep: Report, label: str, devs: List[Any], with_borders: bool) -> None:
    undecided = None
    t0 = work_now()
    def has_sizes(d: Any) -> int:
        return 0 if (isinstance(d[5], (int, tuple)) or (d[5] and any(x is not None for x in d[5]))) else 1

    def cyclic_first(d: Any) -> int:
        return 0 if "tail" in d[0] and has_sizes(d) == 0 else 1

    def symbolic(d: Any) -> int:
        return 1 if isinstance(d[5], tuple) or (isinstance(d[5], list) and any(isinstance(x, tuple) for x in d[5])) else 0

    # instances with the caller's own size variables are the most expensive to project: they are tried last
    for desc, n, edges, inst, diff, sizes, ret_ids in sorted(devs, key=lambda d: (symbolic(d), cyclic_first(d) if len(devs) > 20 else 1, d[1], has_sizes(d) if d[1] <= 4 else 1 - has_sizes(d), len(d[2]))):
        if work_now() - t0 > 60:
            break
        symbolic = isinstance(sizes, tuple) or (isinstance(sizes, list) and any(isinstance(x, tuple) for x in sizes))
        if symbolic and not with_borders:
            # sizes are the caller's variables: project on (group ids, sizes) and judge each realised pair
            if not ret_ids or any(i is None for i in ret_ids):
                rep.finding("ENC-S", GRAPH, "_division_connected_variable_groups", f"{label} result", f"{label} [{desc}]: {diff}")
                return
            sids = [a for a in inst.arrays if a["user"] == "S"][0]["ids"]
            proj = projection(inst, list(ret_ids) + list(sids), budget_s=8.0)
            if proj is None:
                undecided = f"{label} [{desc}]: deviates from the reference schema ({diff}); projection enumeration exceeded its budget"
                continue
            realised: Dict[Tuple[int, ...], set] = {}
            for t in proj:
                realised.setdefault(tuple(t[len(ret_ids):]), set()).add(gid_partition(tuple(t[:len(ret_ids)])))
            for sv in itertools.product(range(1, n + 1), repeat=len(sids)):
                szl2 = [sv[0]] * n if isinstance(sizes, tuple) else list(sv)
                want2 = partitions_ok(n, edges, szl2)
                got2 = realised.get(tuple(sv), set())
                acc, rej = got2 - want2, want2 - got2
                if acc or rej:
                    w_ = sorted(map(sorted, next(iter(acc or rej))))
                    rep.finding("ENC-S", GRAPH, "_division_connected_variable_groups", f"{label} encoding",
                                f"{label} on [{desc}] (edges {edges}): deviates from the reference schema ({diff}) and with the size variables set to {list(sv)} "
                                f"{'realises' if acc else 'cannot realise'} the partition {w_}, which is {'not ' if acc else ''}a valid division for those sizes")
                    return
            continue
        szl = [sizes] * n if isinstance(sizes, int) else ([None] * n if sizes is None else sizes)
        want_parts = partitions_ok(n, edges, szl)
        if with_borders:
            ids = [a for a in inst.arrays if a["user"]][0]["ids"]
        else:
            if not ret_ids or any(i is None for i in ret_ids):
                rep.finding("ENC-S", GRAPH, "_division_connected_variable_groups", f"{label} result", f"{label} [{desc}]: {diff}")
                return
            ids = ret_ids
        proj = projection(inst, ids, budget_s=8.0) if (with_borders or n <= 4) else None
        if proj is None and not with_borders:
            # too many group-id vectors to enumerate: decide partition by partition instead
            wit = _partition_witness(inst, ids, n, want_parts)
            if wit is not None:
                kind, part, names = wit
                rep.finding("ENC-S", GRAPH, "_division_connected_variable_groups", f"{label} encoding",
                            f"{label} on [{desc}] (edges {edges}): deviates from the reference schema ({diff}) and "
                            + (f"realises the partition {part} (group ids {names}), which is not a valid division" if kind == "acc" else
                               f"cannot realise the partition {part} under any naming of its blocks, although it is a valid division"))
                return
        if proj is None:
            undecided = f"{label} [{desc}]: deviates from the reference schema ({diff}); projection enumeration exceeded its budget"
            continue
        if with_borders:
            valid = set()
            given = ret_ids if isinstance(ret_ids, dict) else {}  # border flags passed as Python constants
            for flags in itertools.product([False, True], repeat=len(edges)):
                p = border_partition(n, edges, tuple(given.get(k, f) for k, f in enumerate(flags)))
                if p is not None and p in want_parts:
                    valid.add(flags)
            acc, rej = sorted(proj - valid), sorted(valid - proj)
            if acc or rej:
                w_ = acc[0] if acc else rej[0]
                rep.finding("ENC-S", GRAPH, "_division_connected_variable_groups_with_borders", f"{label} encoding",
                            f"{label} on [{desc}] (edges {edges}): deviates from the reference schema ({diff}) and "
                            f"{'admits' if acc else 'rejects'} the border pattern {list(w_)}, which is {'not ' if acc else ''}a valid division")
                return
        else:
            got_parts = {gid_partition(g) for g in proj}
            acc, rej = got_parts - want_parts, want_parts - got_parts
            if acc or rej:
                w_ = sorted(map(sorted, next(iter(acc or rej))))
                rep.finding("ENC-S", GRAPH, "_division_connected_variable_groups", f"{label} encoding",
                            f"{label} on [{desc}] (edges {edges}): deviates from the reference schema ({diff}) and "
                            f"{'realises' if acc else 'cannot realise'} the partition {w_}, which is {'not ' if acc else ''}a valid division")
                return
    rep.undecide("ENC-S", undecided or f"{label}: deviates from the reference schema ({devs[0][4]}) but no differing pattern was found on the small graphs")
