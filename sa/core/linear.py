"""E3: linear forms over integer symbols and entailment by Fourier-Motzkin elimination.

A *form* is ``{symbol: Fraction, ..., 1: Fraction}`` (the key ``1`` holds the constant).
A *constraint* is a form ``f`` read as ``f >= 0``.  All symbols range over the integers, so
``a < b`` is normalised to ``b - a - 1 >= 0``.

Entailment ``facts |= goal`` is decided by refutation: ``facts + [not goal]`` is fed to
Fourier-Motzkin over the rationals; rational infeasibility implies integer infeasibility, so a
"proved" answer is sound.  A "not proved" answer is never used as a proof of the negation.
"""

from __future__ import annotations

import ast
from fractions import Fraction
from typing import Dict, Iterable, List, Optional, Tuple

from .loader import dotted, norm

Form = Dict[object, Fraction]
ONE = 1

# symbol -> structural information used by the lemma generator in guards.Prover
#   ("div", A_form, k) / ("mod", A_form, k) / ("mul", [factor symbols]) / ("len", text)
SYMINFO: Dict[str, tuple] = {}


def const(c) -> Form:
    return {ONE: Fraction(c)}


def sym(s: str) -> Form:
    return {s: Fraction(1)}


def add(a: Form, b: Form, sb: int = 1) -> Form:
    out = dict(a)
    for k, v in b.items():
        nv = out.get(k, Fraction(0)) + sb * v
        if nv == 0 and k != ONE:
            out.pop(k, None)
        else:
            out[k] = nv
    return out


def scale(a: Form, c) -> Form:
    c = Fraction(c)
    if c == 0:
        return {}
    return {k: v * c for k, v in a.items()}


def is_const(a: Form) -> bool:
    return all(k == ONE for k in a)


def cval(a: Form) -> Fraction:
    return a.get(ONE, Fraction(0))


def symbols(a: Form) -> List[str]:
    return [k for k in a if k != ONE]  # type: ignore[misc]


def show(a: Form) -> str:
    parts = []
    for k in sorted(symbols(a)):
        c = a[k]
        parts.append(f"{'+' if c > 0 else '-'}{'' if abs(c) == 1 else abs(c)}{k}")
    c = cval(a)
    if c != 0 or not parts:
        parts.append(f"{'+' if c >= 0 else '-'}{abs(c)}")
    return " ".join(parts).lstrip("+") + " >= 0"


def key(a: Form) -> Tuple:
    return tuple(sorted(((str(k), v) for k, v in a.items() if v != 0 or k == ONE)))


# ------------------------------------------------------------------------------------------
# AST -> form
# ------------------------------------------------------------------------------------------


class Linearizer:
    """Turns integer-valued expressions into forms.  Non-linear sub-terms become opaque symbols
    named by their normalised text, so syntactically equal terms are the same symbol."""

    def __init__(self, subst: Optional[Dict[str, Form]] = None):
        self.subst = subst or {}

    def sym_of(self, node: ast.AST) -> str:
        d = dotted(node)
        return d if d is not None else norm(node)

    def lin(self, node: ast.AST) -> Optional[Form]:
        if isinstance(node, ast.Constant):
            if isinstance(node.value, bool) or not isinstance(node.value, int):
                return None
            return const(node.value)
        if isinstance(node, (ast.Name, ast.Attribute)):
            s = self.sym_of(node)
            if s in self.subst:
                return dict(self.subst[s])
            return sym(s)
        if isinstance(node, ast.UnaryOp):
            if isinstance(node.op, ast.USub):
                v = self.lin(node.operand)
                return None if v is None else scale(v, -1)
            if isinstance(node.op, ast.UAdd):
                return self.lin(node.operand)
            return None
        if isinstance(node, ast.BinOp):
            if isinstance(node.op, (ast.Add, ast.Sub)):
                a, b = self.lin(node.left), self.lin(node.right)
                if a is None or b is None:
                    return None
                return add(a, b, 1 if isinstance(node.op, ast.Add) else -1)
            if isinstance(node.op, ast.Mult):
                a, b = self.lin(node.left), self.lin(node.right)
                if a is None or b is None:
                    return None
                if is_const(a):
                    return scale(b, cval(a))
                if is_const(b):
                    return scale(a, cval(b))
                return self._product(a, b)
            if isinstance(node.op, ast.LShift):
                a, b = self.lin(node.left), self.lin(node.right)
                if a is not None and b is not None and is_const(a) and is_const(b) and cval(b) >= 0:
                    return const(int(cval(a)) << int(cval(b)))
                return sym(norm(node))
            if isinstance(node.op, ast.Pow):
                a, b = self.lin(node.left), self.lin(node.right)
                if a is not None and b is not None and is_const(a) and is_const(b) and cval(b) >= 0:
                    return const(int(cval(a)) ** int(cval(b)))
                return sym(norm(node))
            if isinstance(node.op, (ast.FloorDiv, ast.Mod)):
                a, b = self.lin(node.left), self.lin(node.right)
                if a is not None and b is not None and is_const(a) and is_const(b) and cval(b) != 0:
                    x, y = int(cval(a)), int(cval(b))
                    return const(x // y if isinstance(node.op, ast.FloorDiv) else x % y)
                return sym(self._canon_divmod(node, a, b))
            return None
        if isinstance(node, ast.Call):
            d = dotted(node.func)
            if d == "len" and len(node.args) == 1:
                name = "len(" + norm(node.args[0]) + ")"
                SYMINFO[name] = ("len", norm(node.args[0]))
                return sym(name)
            if d == "int" and len(node.args) == 1:
                return sym(norm(node))
            return sym(norm(node))
        if isinstance(node, ast.Subscript):
            return sym(norm(node))
        if isinstance(node, ast.IfExp):
            return sym(norm(node))
        return None

    def _canon_divmod(self, node: ast.BinOp, a: Optional[Form], b: Optional[Form]) -> str:
        op = "//" if isinstance(node.op, ast.FloorDiv) else "%"
        la = show_term(a) if a is not None else norm(node.left)
        lb = show_term(b) if b is not None else norm(node.right)
        name = f"({la}){op}({lb})"
        if a is not None and b is not None and is_const(b) and cval(b) > 0:
            SYMINFO[name] = ("div" if op == "//" else "mod", a, int(cval(b)))
        elif a is not None and b is not None and op == "%":
            SYMINFO[name] = ("modsym", a, b)
        return name

    def _product(self, a: Form, b: Form) -> Form:
        """(sum a_i s_i)(sum b_j t_j) expanded; monomials s*t are canonical opaque symbols."""
        out: Form = {}
        for ka, va in a.items():
            for kb, vb in b.items():
                if ka == ONE:
                    k = kb
                elif kb == ONE:
                    k = ka
                else:
                    fa = SYMINFO[ka][1] if SYMINFO.get(ka, ("",))[0] == "mul" else [str(ka)]
                    fb = SYMINFO[kb][1] if SYMINFO.get(kb, ("",))[0] == "mul" else [str(kb)]
                    facs = sorted(fa + fb)
                    k = "*".join(facs)
                    SYMINFO[k] = ("mul", facs)
                out = add(out, {k: va * vb})
        return out


def show_term(a: Form) -> str:
    parts = []
    for k in sorted(symbols(a)):
        parts.append(f"{a[k]}*{k}")
    parts.append(str(cval(a)))
    return "+".join(parts)


# ------------------------------------------------------------------------------------------
# Fourier-Motzkin
# ------------------------------------------------------------------------------------------


def _normalize(c: Form) -> Form:
    return {k: v for k, v in c.items() if v != 0 or k == ONE}


def infeasible(cons: List[Form], order: Optional[List[str]] = None, limit: int = 4000) -> bool:
    """True iff the system {c >= 0} has no rational solution (sound: never True when feasible).
    Returns False when the elimination is abandoned for size."""
    cs = []
    seen = set()
    for c in cons:
        c = _normalize(c)
        k = key(c)
        if k not in seen:
            seen.add(k)
            cs.append(c)
    vars_ = sorted({s for c in cs for s in symbols(c)})
    if order:
        vars_ = [v for v in order if v in vars_] + [v for v in vars_ if v not in order]
    while True:
        # constant contradictions
        rest = []
        for c in cs:
            if not symbols(c):
                if cval(c) < 0:
                    return True
            else:
                rest.append(c)
        cs = rest
        if not cs:
            return False
        remaining = [v for v in vars_ if any(v in c for c in cs)]
        if not remaining:
            return False
        # pick the variable with the fewest pos*neg combinations
        best, bestcost = None, None
        for v in remaining:
            p = sum(1 for c in cs if c.get(v, 0) > 0)
            n = sum(1 for c in cs if c.get(v, 0) < 0)
            cost = p * n - p - n
            if bestcost is None or cost < bestcost:
                best, bestcost = v, cost
            if order:
                best = remaining[0]
                break
        v = best
        pos = [c for c in cs if c.get(v, 0) > 0]
        neg = [c for c in cs if c.get(v, 0) < 0]
        oth = [c for c in cs if c.get(v, 0) == 0]
        new = oth
        seen = {key(c) for c in new}
        for p in pos:
            for n in neg:
                comb = add(scale(p, -n[v]), scale(n, p[v]))
                comb.pop(v, None)
                comb = _normalize(comb)
                k = key(comb)
                if k not in seen:
                    seen.add(k)
                    new.append(comb)
        if len(new) > limit:
            return False
        cs = new


def cone(facts: List[Form], goal_syms: Iterable[str]) -> List[Form]:
    """Facts transitively sharing a symbol with the goal (cone of influence)."""
    want = set(goal_syms)
    chosen: List[Form] = []
    rest = list(facts)
    changed = True
    while changed:
        changed = False
        nxt = []
        for f in rest:
            ss = set(symbols(f))
            if not ss or ss & want:
                chosen.append(f)
                want |= ss
                changed = True
            else:
                nxt.append(f)
        rest = nxt
    return chosen


def entails(facts: List[Form], goal: Form, order: Optional[List[str]] = None) -> bool:
    """facts |= (goal >= 0)"""
    goal = _normalize(goal)
    if not symbols(goal):
        return cval(goal) >= 0
    neg = add(scale(goal, -1), const(-1))  # goal <= -1
    fs = cone(facts, symbols(goal))
    if len(fs) > 60:
        fs = fs[-60:]
    return infeasible(fs + [neg], order)


def ge(a: Form, b: Form) -> Form:  # a >= b
    return add(a, b, -1)


def gt(a: Form, b: Form) -> Form:  # a > b  (integers)
    return add(add(a, b, -1), const(-1))
