"""E2: syntax-directed "facts at program point" walk + the prover used by bound rules.

The walker visits every statement and every sub-expression of a function in evaluation order and
hands the rule a ``Facts`` value: the conjunction of conditions that dominate that point
(if/elif/else, early exits, short-circuit and/or, conditional expressions, comprehension filters,
range loops, asserts).  Variables assigned in a loop body lose their facts at loop entry.
"""

from __future__ import annotations

import ast
import re
from fractions import Fraction
from typing import Callable, Dict, FrozenSet, Iterable, List, Optional, Set, Tuple

from . import linear as L
from .loader import dotted, norm

_TOK = re.compile(r"[A-Za-z_][A-Za-z_0-9]*")
_tokcache: Dict[str, FrozenSet[str]] = {}


def tokens(s: str) -> FrozenSet[str]:
    r = _tokcache.get(s)
    if r is None:
        r = frozenset(_TOK.findall(s))
        _tokcache[s] = r
    return r


EXIT_STMTS = (ast.Return, ast.Raise, ast.Continue, ast.Break)


class Facts:
    __slots__ = ("lin", "neq", "true", "false", "defs")

    def __init__(self, lin=(), neq=(), true=frozenset(), false=frozenset(), defs=()):
        self.lin: Tuple[L.Form, ...] = tuple(lin)
        self.neq: Tuple[L.Form, ...] = tuple(neq)
        self.true: FrozenSet[str] = frozenset(true)
        self.false: FrozenSet[str] = frozenset(false)
        # defs: (name, normalised text of the defining expression) for single-name assignments
        self.defs: Tuple[Tuple[str, str], ...] = tuple(defs)

    # -- construction ------------------------------------------------------------------------
    def add_lin(self, *forms: L.Form) -> "Facts":
        return Facts(self.lin + tuple(forms), self.neq, self.true, self.false, self.defs)

    def add_neq(self, form: L.Form) -> "Facts":
        return Facts(self.lin, self.neq + (form,), self.true, self.false, self.defs)

    def add_truth(self, text: str, value: bool) -> "Facts":
        if value:
            return Facts(self.lin, self.neq, self.true | {text}, self.false - {text}, self.defs)
        return Facts(self.lin, self.neq, self.true - {text}, self.false | {text}, self.defs)

    def add_def(self, name: str, text: str) -> "Facts":
        return Facts(self.lin, self.neq, self.true, self.false, self.defs + ((name, text),))

    def definition(self, name: str) -> Optional[str]:
        for n, t in reversed(self.defs):
            if n == name:
                return t
        return None

    def havoc(self, names: Iterable[str]) -> "Facts":
        names = set(names)
        if not names:
            return self

        def clean(form: L.Form) -> bool:
            return not any(tokens(str(s)) & names for s in L.symbols(form))

        return Facts(
            [f for f in self.lin if clean(f)],
            [f for f in self.neq if clean(f)],
            [t for t in self.true if not (tokens(t) & names)],
            [t for t in self.false if not (tokens(t) & names)],
            [(n, t) for n, t in self.defs if n not in names and not (tokens(t) & names)],
        )

    def havoc_containing(self, needle: str) -> "Facts":
        """Drop everything that mentions ``needle`` inside a larger symbol (stores through X[..], X.attr)."""

        def clean_s(s: str) -> bool:
            return needle not in s or s == needle

        return Facts(
            [f for f in self.lin if all(clean_s(str(s)) for s in L.symbols(f))],
            [f for f in self.neq if all(clean_s(str(s)) for s in L.symbols(f))],
            [t for t in self.true if needle not in t],
            [t for t in self.false if needle not in t],
            [(n, t) for n, t in self.defs if needle not in t],
        )

    def join(self, other: "Facts") -> "Facts":
        ko = {L.key(f) for f in other.lin}
        kn = {L.key(f) for f in other.neq}
        return Facts(
            [f for f in self.lin if L.key(f) in ko],
            [f for f in self.neq if L.key(f) in kn],
            self.true & other.true,
            self.false & other.false,
            [d for d in self.defs if d in other.defs],
        )

    # -- conditions --------------------------------------------------------------------------
    def assume(self, cond: ast.AST, pol: bool = True) -> "Facts":
        lz = L.Linearizer()
        if isinstance(cond, ast.Call) and PREDICATES:
            # a call of a one-line predicate helper (`def _at_end(data, idx): return idx == len(data)`) stands for its body
            d = dotted(cond.func)
            pred = PREDICATES.get(d.split(".")[-1]) if d else None
            if pred is not None and not cond.keywords and len(cond.args) == len(pred[0]) and not any(isinstance(a, ast.Starred) for a in cond.args):
                import copy
                mapping = dict(zip(pred[0], cond.args))

                class Sub(ast.NodeTransformer):
                    def visit_Name(self, n: ast.Name) -> ast.AST:
                        return copy.deepcopy(mapping[n.id]) if n.id in mapping else n

                body = ast.fix_missing_locations(Sub().visit(copy.deepcopy(pred[1])))
                return self.add_truth(norm(cond), pol).assume(body, pol)
        if isinstance(cond, ast.UnaryOp) and isinstance(cond.op, ast.Not):
            return self.assume(cond.operand, not pol)
        if isinstance(cond, ast.BoolOp):
            conj = isinstance(cond.op, ast.And)
            if conj == pol:  # (a and b) true  /  (a or b) false  => every operand decided
                f = self
                for v in cond.values:
                    f = f.assume(v, pol)
                return f
            return self.add_truth(norm(cond), pol)
        if isinstance(cond, ast.Compare):
            f = self
            operands = [cond.left] + list(cond.comparators)
            if not pol and len(cond.ops) > 1:
                return self.add_truth(norm(cond), pol)
            for op, a, b in zip(cond.ops, operands, operands[1:]):
                f = f._assume_cmp(lz, op, a, b, pol, cond)
            return f
        if isinstance(cond, (ast.Name, ast.Attribute)):
            # truthiness of a container: `if xs:` / `if not xs:` say len(xs) >= 1 / len(xs) == 0.  For a non-container the
            # symbol len(xs) occurs nowhere else, so the extra fact is inert.
            ln = lz.lin(ast.Call(func=ast.Name(id="len", ctx=ast.Load()), args=[cond], keywords=[]))
            f = self.add_truth(norm(cond), pol)
            if ln is not None:
                f = f.add_lin(L.add(ln, L.const(-1))) if pol else f.add_lin(L.scale(ln, -1))
            return f
        return self.add_truth(norm(cond), pol)

    def _assume_cmp(self, lz: L.Linearizer, op: ast.cmpop, a: ast.AST, b: ast.AST, pol: bool, whole: ast.AST) -> "Facts":
        neg = {ast.Lt: ast.GtE, ast.LtE: ast.Gt, ast.Gt: ast.LtE, ast.GtE: ast.Lt, ast.Eq: ast.NotEq, ast.NotEq: ast.Eq}
        t = type(op)
        text = f"{norm(a)} {_OPS.get(t, '?')} {norm(b)}"
        f = self.add_truth(text, pol)
        if t in (ast.Is, ast.IsNot, ast.In, ast.NotIn):
            # canonical form: always recorded as the positive operator
            if t in (ast.IsNot, ast.NotIn):
                pos = f"{norm(a)} {_OPS[ast.Is if t is ast.IsNot else ast.In]} {norm(b)}"
                f = f.add_truth(pos, not pol)
            return f
        if t not in neg:
            return f
        if not pol:
            t = neg[t]
            f = f.add_truth(f"{norm(a)} {_OPS[t]} {norm(b)}", True)
        # min(x, y) >= c  =>  x >= c and y >= c ;  max(x, y) <= c  =>  x <= c and y <= c   (and the mirrored forms)
        for side, other, lower in ((a, b, True), (b, a, False)):
            if isinstance(side, ast.Call) and dotted(side.func) in ("min", "max") and len(side.args) >= 2 and not side.keywords:
                is_min = dotted(side.func) == "min"
                # `side OP other` with side on the left if lower else on the right
                ge_like = (t in (ast.GtE, ast.Gt)) if lower else (t in (ast.LtE, ast.Lt))
                le_like = (t in (ast.LtE, ast.Lt)) if lower else (t in (ast.GtE, ast.Gt))
                if (is_min and ge_like) or ((not is_min) and le_like):
                    for arg in side.args:
                        cmp = ast.Compare(left=arg, ops=[op if pol else neg[type(op)]()], comparators=[other]) if lower else \
                            ast.Compare(left=other, ops=[op if pol else neg[type(op)]()], comparators=[arg])
                        f = f.assume(ast.fix_missing_locations(cmp), True)
                    return f
        fa, fb = lz.lin(a), lz.lin(b)
        if fa is None or fb is None:
            return f
        if t is ast.Lt:
            return f.add_lin(L.gt(fb, fa))
        if t is ast.LtE:
            return f.add_lin(L.ge(fb, fa))
        if t is ast.Gt:
            return f.add_lin(L.gt(fa, fb))
        if t is ast.GtE:
            return f.add_lin(L.ge(fa, fb))
        if t is ast.Eq:
            return f.add_lin(L.ge(fa, fb), L.ge(fb, fa))
        if t is ast.NotEq:
            return f.add_neq(L.add(fa, fb, -1))
        return f

    def knows(self, cond_text: str) -> Optional[bool]:
        if cond_text in self.true:
            return True
        if cond_text in self.false:
            return False
        return None


_OPS = {
    ast.Lt: "<", ast.LtE: "<=", ast.Gt: ">", ast.GtE: ">=", ast.Eq: "==", ast.NotEq: "!=",
    ast.Is: "is", ast.IsNot: "is not", ast.In: "in", ast.NotIn: "not in",
}


# ------------------------------------------------------------------------------------------
# Prover: facts + lemmas about opaque symbols
# ------------------------------------------------------------------------------------------


class Prover:
    def __init__(self, facts: Facts, extra: Iterable[L.Form] = ()):
        self.facts = facts
        self.base: List[L.Form] = list(facts.lin) + list(extra)
        self._lemmas_done: Set[str] = set()
        self._lemmas(sorted({str(s) for n in facts.neq for s in L.symbols(n)}))
        self._refine_neq()

    def _refine_neq(self) -> None:
        # a != b with a <= b known  =>  a <= b-1
        for _ in range(2):
            for n in self.facts.neq:
                if L.entails(self.base, n) and not L.entails(self.base, L.add(n, L.const(-1))):
                    self.base.append(L.add(n, L.const(-1)))
                m = L.scale(n, -1)
                if L.entails(self.base, m) and not L.entails(self.base, L.add(m, L.const(-1))):
                    self.base.append(L.add(m, L.const(-1)))

    def _lemmas(self, syms: Iterable[str], depth: int = 0) -> None:
        todo = [s for s in syms if s not in self._lemmas_done]
        for s in todo:
            self._lemmas_done.add(s)
            info = L.SYMINFO.get(s)
            if info is None:
                continue
            if info[0] == "len":
                self.base.append(L.sym(s))
            elif info[0] == "div":
                _, a, k = info
                q = L.sym(s)
                self.base.append(L.ge(a, L.scale(q, k)))  # k q <= a
                self.base.append(L.ge(L.add(L.scale(q, k), L.const(k - 1)), a))  # a <= kq + k-1
                self._lemmas(L.symbols(a), depth + 1)
            elif info[0] == "mod":
                _, a, k = info
                r = L.sym(s)
                self.base.append(r)
                self.base.append(L.ge(L.const(k - 1), r))
                self._lemmas(L.symbols(a), depth + 1)
            elif info[0] == "modsym":
                _, a, b = info
                self._lemmas(L.symbols(b), depth + 1)
                if L.entails(self.base, L.add(b, L.const(-1))):  # divisor >= 1
                    r = L.sym(s)
                    self.base.append(r)
                    self.base.append(L.ge(L.add(b, L.const(-1)), r))
            elif info[0] == "mul" and depth < 2:
                facs = info[1]
                self._lemmas(facs, depth + 1)
                if all(L.entails(self.base, L.sym(f)) for f in facs):
                    self.base.append(L.sym(s))

    def _product_lemmas(self, syms: List[str]) -> None:
        prods = [s for s in syms if L.SYMINFO.get(s, ("",))[0] == "mul" and len(L.SYMINFO[s][1]) == 2]
        # p = a*f with a symbol f >= 0:  bounds on a scale to bounds on p
        for p in prods:
            fa = L.SYMINFO[p][1]
            for idx in (0, 1):
                f, a = fa[idx], fa[1 - idx]
                tag = f"prod:{p}:{f}"
                if tag in self._lemmas_done:
                    continue
                self._lemmas_done.add(tag)
                if not L.entails(self.base, L.sym(f)):
                    continue
                # every known bound  a >= e  /  a <= e  with e linear and free of products is scaled
                for c in list(self.base):
                    ca = c.get(a)
                    if ca is None or ca == 0:
                        continue
                    others = {k: v for k, v in c.items() if k != a}
                    # c:  ca*a + others >= 0 ; multiply by f>=0 :  ca*(a*f) + others*f >= 0
                    out: L.Form = {p: ca}
                    okay = True
                    for k, v in others.items():
                        if k == L.ONE:
                            out = L.add(out, {f: v})
                        else:
                            kk = "*".join(sorted([str(k), f]))
                            if L.SYMINFO.get(str(k), ("",))[0] in ("mul",):
                                okay = False
                                break
                            L.SYMINFO[kk] = ("mul", sorted([str(k), f]))
                            out = L.add(out, {kk: v})
                    if okay:
                        self.base.append(out)

    def ge0(self, goal: L.Form) -> bool:
        """facts |= goal >= 0"""
        if not L.symbols(goal):
            return L.cval(goal) >= 0
        allsyms = set(L.symbols(goal))
        for f in L.cone(self.base, L.symbols(goal)):
            allsyms |= set(L.symbols(f))
        nb = len(self.base)
        self._lemmas(sorted(allsyms))
        if len(self.base) != nb:
            self._refine_neq()
        if L.entails(self.base, goal):
            return True
        self._product_lemmas(sorted(allsyms | {s for f in self.base for s in L.symbols(f)}))
        return L.entails(self.base, goal)

    def ge(self, a: L.Form, b: L.Form) -> bool:
        return self.ge0(L.ge(a, b))

    def gt(self, a: L.Form, b: L.Form) -> bool:
        return self.ge0(L.gt(a, b))

    def eq(self, a: L.Form, b: L.Form) -> bool:
        return self.ge(a, b) and self.ge(b, a)

    def infeasible(self) -> bool:
        return self.ge0(L.const(-1))


# ------------------------------------------------------------------------------------------
# Walker
# ------------------------------------------------------------------------------------------

MUTATORS = {
    "append", "extend", "insert", "pop", "remove", "sort", "reverse", "clear", "add", "update",
    "setdefault", "popitem", "discard", "appendleft", "popleft",
}


def assigned_names(nodes: Iterable[ast.AST]) -> Set[str]:
    out: Set[str] = set()
    for n in nodes:
        for sub in ast.walk(n):
            if isinstance(sub, ast.Name) and isinstance(sub.ctx, (ast.Store, ast.Del)):
                out.add(sub.id)
            elif isinstance(sub, (ast.FunctionDef, ast.ClassDef)):
                out.add(sub.name)
            elif isinstance(sub, ast.NamedExpr) and isinstance(sub.target, ast.Name):
                out.add(sub.target.id)
    return out


def target_names(t: ast.AST) -> List[str]:
    return [n.id for n in ast.walk(t) if isinstance(n, ast.Name)]


def always_exits(body: List[ast.stmt]) -> bool:
    if not body:
        return False
    last = body[-1]
    if isinstance(last, EXIT_STMTS):
        return True
    if isinstance(last, ast.If):
        return always_exits(last.body) and always_exits(last.orelse)
    return False


def range_bounds(it: ast.AST) -> Optional[Tuple[Optional[ast.AST], Optional[ast.AST], int]]:
    """(lo_expr, hi_exclusive_expr, +1/-1) for range(...) / reversed(range(...)); lo None means 0."""
    if isinstance(it, ast.Call) and dotted(it.func) == "reversed" and len(it.args) == 1:
        return range_bounds(it.args[0])
    if isinstance(it, ast.Call) and dotted(it.func) == "range" and not it.keywords:
        a = it.args
        if len(a) == 1:
            return (None, a[0], 1)
        if len(a) == 2:
            return (a[0], a[1], 1)
        if len(a) == 3:
            st = a[2]
            lz = L.Linearizer().lin(st)
            if lz is not None and L.is_const(lz) and L.cval(lz) != 0:
                return (a[0], a[1], 1 if L.cval(lz) > 0 else -1)
    return None


class Walker:
    """Subclass or pass callbacks.  on_expr(node, facts) is called for every expression node with
    the facts that hold when it is evaluated; on_stmt(stmt, facts) before each statement."""

    def __init__(
        self,
        on_expr: Optional[Callable[[ast.AST, Facts], None]] = None,
        on_stmt: Optional[Callable[[ast.stmt, Facts], None]] = None,
        on_nested: Optional[Callable[[ast.FunctionDef, Facts], None]] = None,
        summaries: Optional[Dict[str, Dict[Tuple[Optional[int], int], int]]] = None,
    ):
        self.summaries = summaries or {}
        self.on_expr = on_expr
        self.on_stmt = on_stmt
        self.on_nested = on_nested
        self.lz = L.Linearizer()
        self.unknown_stmts: List[ast.stmt] = []
        self.returns: List[Tuple[ast.Return, Facts]] = []
        self.fallthrough: Optional[Facts] = None  # facts at the implicit end of the function

    # -- entry -------------------------------------------------------------------------------
    def run_function(self, fn: ast.FunctionDef, entry: Optional[Facts] = None) -> None:
        facts = entry or Facts()
        for d in fn.args.defaults + [d for d in fn.args.kw_defaults if d is not None]:
            self.expr(d, facts)
        self.fallthrough = self.block(fn.body, facts)

    # -- statements --------------------------------------------------------------------------
    def block(self, body: List[ast.stmt], facts: Facts) -> Optional[Facts]:
        cur: Optional[Facts] = facts
        for st in body:
            if cur is None:
                # unreachable code after an exit: still visit with empty knowledge-free facts
                cur = Facts()
            cur = self.stmt(st, cur)
        return cur

    def stmt(self, st: ast.stmt, facts: Facts) -> Optional[Facts]:
        if self.on_stmt:
            self.on_stmt(st, facts)
        if isinstance(st, ast.Expr):
            self.expr(st.value, facts)
            return self._effects_of_expr(st.value, facts)
        if isinstance(st, ast.Assign):
            self.expr(st.value, facts)
            for t in st.targets:
                self._visit_target(t, facts)
            f = self._effects_of_expr(st.value, facts)
            for t in st.targets:
                f = self._assign(t, st.value, f)
            return f
        if isinstance(st, ast.AnnAssign):
            if st.value is not None:
                self.expr(st.value, facts)
                self._visit_target(st.target, facts)
                return self._assign(st.target, st.value, self._effects_of_expr(st.value, facts))
            return facts
        if isinstance(st, ast.AugAssign):
            self.expr(st.value, facts)
            self._visit_target(st.target, facts)
            f = facts
            if isinstance(st.target, ast.Name):
                v = st.target.id
                inc = self.lz.lin(st.value)
                keep: List[L.Form] = []
                if inc is not None and L.is_const(inc) and isinstance(st.op, (ast.Add, ast.Sub)):
                    # shift every bound on v by the constant increment
                    d = L.cval(inc) * (1 if isinstance(st.op, ast.Add) else -1)
                    for c in f.lin:
                        if v in c and all(v not in tokens(str(s)) or s == v for s in L.symbols(c)):
                            keep.append(L.add(c, L.const(-c[v] * d)))
                f = f.havoc({v}).add_lin(*keep)
            else:
                f = self._store_effect(st.target, f)
            return f
        if isinstance(st, ast.If):
            self.expr(st.test, facts)
            ft = facts.assume(st.test, True)
            ff = facts.assume(st.test, False)
            a = self.block(st.body, ft)
            b = self.block(st.orelse, ff) if st.orelse else ff
            if a is None:
                return b
            if b is None:
                return a
            return a.join(b)
        if isinstance(st, ast.For):
            self.expr(st.iter, facts)
            assigned = assigned_names(st.body) | set(target_names(st.target))
            fh = self._havoc_loop(facts, st.body, assigned)
            fh = self._monotone(facts, fh, st.body)
            fb = self._bind_iter(st.target, st.iter, fh)
            self._visit_target(st.target, fb)
            self.block(st.body, fb)
            if st.orelse:
                self.block(st.orelse, fh)
            return fh
        if isinstance(st, ast.While):
            assigned = assigned_names(st.body)
            fh = self._havoc_loop(facts, st.body, assigned)
            fh = self._monotone(facts, fh, st.body)
            self.expr(st.test, fh)
            self.block(st.body, fh.assume(st.test, True))
            has_break = any(isinstance(n, ast.Break) for b in st.body for n in _walk_same_loop(b))
            after = fh if has_break else fh.assume(st.test, False)
            if st.orelse:
                self.block(st.orelse, after)
            if is_true_const(st.test) and not has_break:
                return None
            return after
        if isinstance(st, ast.Return):
            if st.value is not None:
                self.expr(st.value, facts)
            self.returns.append((st, facts))
            return None
        if isinstance(st, ast.Raise):
            if st.exc is not None:
                self.expr(st.exc, facts)
            return None
        if isinstance(st, (ast.Continue, ast.Break)):
            return None
        if isinstance(st, ast.Assert):
            self.expr(st.test, facts)
            return facts.assume(st.test, True)
        if isinstance(st, (ast.Pass, ast.Import, ast.ImportFrom, ast.Global, ast.Nonlocal)):
            return facts
        if isinstance(st, (ast.FunctionDef, ast.AsyncFunctionDef)):
            if self.on_nested:
                self.on_nested(st, facts)
            return facts.havoc({st.name})
        if isinstance(st, ast.ClassDef):
            return facts.havoc({st.name})
        if isinstance(st, ast.Try):
            assigned = assigned_names(st.body)
            a = self.block(st.body, facts)
            fh = facts.havoc(assigned)
            outs = [a] if a is not None else []
            if st.orelse and a is not None:
                o = self.block(st.orelse, a)
                outs = [o] if o is not None else []
            for h in st.handlers:
                hb = self.block(h.body, fh.havoc({h.name} if h.name else ()))
                if hb is not None:
                    outs.append(hb)
            res: Optional[Facts] = None
            for o in outs:
                res = o if res is None else res.join(o)
            if st.finalbody:
                res2 = self.block(st.finalbody, res if res is not None else fh)
                return res2 if res is not None else None
            return res
        if isinstance(st, ast.Match):
            # `match subject:` as an if/elif chain over `subject == value` (value patterns, or-patterns, wildcard); a case with any
            # other pattern only forgets the names it may bind
            self.expr(st.subject, facts)
            outs2: List[Facts] = []
            rest: Optional[Facts] = facts
            exhaustive = False
            for case in st.cases:
                if rest is None:
                    break
                tests: List[ast.AST] = []
                simple = True

                def collect(pat: ast.AST) -> None:
                    nonlocal simple
                    if isinstance(pat, ast.MatchValue):
                        tests.append(ast.Compare(left=st.subject, ops=[ast.Eq()], comparators=[pat.value]))
                    elif isinstance(pat, ast.MatchSingleton):
                        tests.append(ast.Compare(left=st.subject, ops=[ast.Is()], comparators=[ast.Constant(value=pat.value)]))
                    elif isinstance(pat, ast.MatchOr):
                        for q in pat.patterns:
                            collect(q)
                    else:
                        simple = False

                wildcard = isinstance(case.pattern, ast.MatchAs) and case.pattern.pattern is None
                if not wildcard:
                    collect(case.pattern)
                bound = {n.name for n in ast.walk(case.pattern) if isinstance(n, (ast.MatchAs, ast.MatchStar)) and getattr(n, "name", None)}
                f_in = rest.havoc(bound) if bound else rest
                if wildcard and case.guard is None:
                    exhaustive = True
                elif simple and tests:
                    cond: ast.AST = tests[0] if len(tests) == 1 else ast.BoolOp(op=ast.Or(), values=tests)
                    ast.fix_missing_locations(cond)
                    f_in = f_in.assume(cond, True)
                    if case.guard is None:
                        rest = rest.assume(cond, False)
                if case.guard is not None:
                    self.expr(case.guard, f_in)
                    f_in = f_in.assume(case.guard, True)
                o2 = self.block(case.body, f_in)
                if o2 is not None:
                    outs2.append(o2)
                if exhaustive:
                    rest = None
            if rest is not None:
                outs2.append(rest)
            res3: Optional[Facts] = None
            for o2 in outs2:
                res3 = o2 if res3 is None else res3.join(o2)
            return res3
        if isinstance(st, ast.With):
            f = facts
            for item in st.items:
                self.expr(item.context_expr, f)
                if item.optional_vars is not None:
                    f = f.havoc(target_names(item.optional_vars))
            return self.block(st.body, f)
        if isinstance(st, ast.Delete):
            return facts.havoc(assigned_names([st]))
        self.unknown_stmts.append(st)
        return facts.havoc(assigned_names([st]))

    def _havoc_loop(self, facts: Facts, body: List[ast.stmt], assigned: Set[str]) -> Facts:
        f = facts.havoc(assigned)
        # stores and mutating calls inside the loop invalidate facts about those containers
        for b in body:
            for n in ast.walk(b):
                if isinstance(n, (ast.Subscript, ast.Attribute)) and isinstance(getattr(n, "ctx", None), ast.Store):
                    f = self._store_effect(n, f)
                elif isinstance(n, ast.Call) and isinstance(n.func, ast.Attribute) and n.func.attr in MUTATORS:
                    base = dotted(n.func.value)
                    if base:
                        f = f.havoc_containing(base)
        return f

    def advances(self, target: ast.AST, value: ast.AST) -> Dict[str, int]:
        """names in `target` that `target = f(...)` can only move forward: f's summary says the returned component equals
        one of its parameters plus a non-negative constant, and the call passes that very name for the parameter"""
        out: Dict[str, int] = {}
        if not isinstance(value, ast.Call):
            return out
        d = dotted(value.func)
        summ = self.summaries.get(d.split(".")[-1]) if d else None
        if not summ or value.keywords or any(isinstance(a, ast.Starred) for a in value.args):
            return out
        elts: List[Tuple[Optional[int], ast.AST]] = (
            [(k, t) for k, t in enumerate(target.elts)] if isinstance(target, (ast.Tuple, ast.List)) else [(None, target)]
        )
        for k, t in elts:
            if not isinstance(t, ast.Name):
                continue
            for (kk, j), c in summ.items():
                if kk == k and j < len(value.args) and isinstance(value.args[j], ast.Name) and value.args[j].id == t.id:
                    out[t.id] = c
        return out

    def _monotone(self, before: Facts, havocked: Facts, body: List[ast.stmt]) -> Facts:
        """A variable that the loop only ever increments keeps its lower bounds (monotone widening)."""
        incs: Dict[str, bool] = {}
        for b in body:
            for n in ast.walk(b):
                if isinstance(n, ast.AugAssign) and isinstance(n.target, ast.Name):
                    v = n.target.id
                    inc = self.lz.lin(n.value)
                    good = isinstance(n.op, ast.Add) and inc is not None and L.is_const(inc) and L.cval(inc) >= 0
                    incs[v] = incs.get(v, True) and good
                elif isinstance(n, ast.Name) and isinstance(n.ctx, ast.Store):
                    p = getattr(n, "_parent", None)
                    if isinstance(p, ast.AugAssign) and p.target is n:
                        continue
                    # `v, i = helper(s, i)` with a summary "returns i + c, c >= 0" is an increment too
                    a = p
                    if isinstance(a, (ast.Tuple, ast.List)):
                        a = getattr(a, "_parent", None)
                    if isinstance(a, ast.Assign) and len(a.targets) == 1 and n.id in self.advances(a.targets[0], a.value):
                        incs[n.id] = incs.get(n.id, True)
                        continue
                    incs[n.id] = False
        keep: List[L.Form] = []
        for v, good in incs.items():
            if not good:
                continue
            for c in before.lin:
                cv = c.get(v)
                if cv is not None and cv > 0:
                    others = [s for s in L.symbols(c) if s != v]
                    if all(not (tokens(str(s)) & set(incs)) for s in others):
                        keep.append(c)
        return havocked.add_lin(*keep) if keep else havocked

    def _bind_iter(self, target: ast.AST, it: ast.AST, f: Facts) -> Facts:
        rb = range_bounds(it)
        if rb is not None and isinstance(target, ast.Name):
            lo, hi, _ = rb
            v = L.sym(target.id)
            lo_f = L.const(0) if lo is None else self.lz.lin(lo)
            hi_f = self.lz.lin(hi) if hi is not None else None
            if rb[2] < 0:
                # range(a, b, -s): b < v <= a
                a_f, b_f = lo_f, hi_f
                if a_f is not None:
                    f = f.add_lin(L.ge(a_f, v))
                if b_f is not None:
                    f = f.add_lin(L.gt(v, b_f))
                return f
            if lo_f is not None:
                f = f.add_lin(L.ge(v, lo_f))
            if hi_f is not None:
                f = f.add_lin(L.gt(hi_f, v))
            return f.add_truth(f"{target.id} in {norm(it)}", True)
        if isinstance(it, ast.Call) and dotted(it.func) == "enumerate" and it.args:
            if isinstance(target, ast.Tuple) and len(target.elts) == 2 and isinstance(target.elts[0], ast.Name):
                i = L.sym(target.elts[0].id)
                n = self.lz.lin(ast.Call(func=ast.Name(id="len", ctx=ast.Load()), args=[it.args[0]], keywords=[]))
                f = f.add_lin(i)
                if n is not None and len(it.args) == 1:
                    f = f.add_lin(L.gt(n, i))
            return f
        if isinstance(it, (ast.List, ast.Tuple)) and it.elts:
            # literal list of constants / constant tuples: componentwise bounds
            rows = []
            for e in it.elts:
                if isinstance(e, (ast.Tuple, ast.List)):
                    rows.append([self.lz.lin(x) for x in e.elts])
                else:
                    rows.append([self.lz.lin(e)])
            tgts = target.elts if isinstance(target, (ast.Tuple, ast.List)) else [target]
            if all(len(r) == len(tgts) for r in rows) and all(
                x is not None and L.is_const(x) for r in rows for x in r
            ):
                for k, t in enumerate(tgts):
                    if isinstance(t, ast.Name):
                        vals = [L.cval(r[k]) for r in rows]  # type: ignore[arg-type]
                        f = f.add_lin(L.ge(L.sym(t.id), L.const(min(vals))), L.ge(L.const(max(vals)), L.sym(t.id)))
            return f
        if isinstance(target, ast.Name):
            return f.add_truth(f"{target.id} in {norm(it)}", True)
        return f

    def _assign(self, target: ast.AST, value: ast.AST, f: Facts) -> Facts:
        if isinstance(target, ast.Name):
            v = target.id
            form = self.lz.lin(value) if not isinstance(value, (ast.Tuple, ast.List, ast.Dict, ast.Set)) else None
            uses_self = v in tokens(norm(value))
            f = f.havoc({v})
            if form is not None and not uses_self and not isinstance(value, ast.Constant):
                f = f.add_lin(L.ge(L.sym(v), form), L.ge(form, L.sym(v)))
            elif form is not None and isinstance(value, ast.Constant):
                f = f.add_lin(L.ge(L.sym(v), form), L.ge(form, L.sym(v)))
            if isinstance(value, ast.Call) and dotted(value.func) in ("max", "min") and len(value.args) == 2 and not uses_self:
                a, b = self.lz.lin(value.args[0]), self.lz.lin(value.args[1])
                for x in (a, b):
                    if x is not None:
                        if dotted(value.func) == "max":
                            f = f.add_lin(L.ge(L.sym(v), x))
                        else:
                            f = f.add_lin(L.ge(x, L.sym(v)))
            if not uses_self:
                f = f.add_def(v, norm(value))
            return f
        if isinstance(target, (ast.Tuple, ast.List)):
            if isinstance(value, (ast.Tuple, ast.List)) and len(value.elts) == len(target.elts):
                names = set(target_names(target))
                if not any(names & tokens(norm(e)) for e in value.elts):
                    for t, e in zip(target.elts, value.elts):
                        f = self._assign(t, e, f)
                    return f
            adv = self.advances(target, value)
            keep: List[L.Form] = []
            for v in adv:
                # v_new >= v_old: every lower bound on v survives
                for c in f.lin:
                    cv = c.get(v)
                    if cv is not None and cv > 0 and all(not (tokens(str(s_)) & set(target_names(target))) for s_ in L.symbols(c) if s_ != v):
                        keep.append(c)
            f = f.havoc(target_names(target))
            if keep:
                f = f.add_lin(*keep)
            # shape unpacking:  h, w = X.shape  => h == X.shape[0] ...
            return f
        if isinstance(target, ast.Starred):
            return f.havoc(target_names(target))
        return self._store_effect(target, f)

    def _store_effect(self, target: ast.AST, f: Facts) -> Facts:
        base = target
        while isinstance(base, (ast.Subscript, ast.Attribute)):
            base = base.value
        if isinstance(target, ast.Attribute):
            d = dotted(target)
            if d:
                return f.havoc_containing(d)
        if isinstance(base, ast.Name):
            return f.havoc_containing(base.id + "[")
        return f

    def _effects_of_expr(self, e: ast.AST, f: Facts) -> Facts:
        for n in ast.walk(e):
            if isinstance(n, ast.Call) and isinstance(n.func, ast.Attribute) and n.func.attr in MUTATORS:
                base = dotted(n.func.value)
                if base:
                    f = f.havoc_containing(base)
            elif isinstance(n, ast.NamedExpr) and isinstance(n.target, ast.Name):
                f = f.havoc({n.target.id})
        return f

    def _visit_target(self, t: ast.AST, facts: Facts) -> None:
        # subscripts on the left-hand side are evaluated too (x[i] = ... indexes x)
        if isinstance(t, (ast.Tuple, ast.List)):
            for e in t.elts:
                self._visit_target(e, facts)
        elif isinstance(t, ast.Starred):
            self._visit_target(t.value, facts)
        elif isinstance(t, (ast.Subscript, ast.Attribute)):
            self.expr(t, facts)

    # -- expressions -------------------------------------------------------------------------
    def expr(self, node: ast.AST, facts: Facts) -> None:
        if self.on_expr:
            self.on_expr(node, facts)
        if isinstance(node, ast.BoolOp):
            f = facts
            conj = isinstance(node.op, ast.And)
            for v in node.values:
                self.expr(v, f)
                f = f.assume(v, conj)
            return
        if isinstance(node, ast.IfExp):
            self.expr(node.test, facts)
            self.expr(node.body, facts.assume(node.test, True))
            self.expr(node.orelse, facts.assume(node.test, False))
            return
        if isinstance(node, (ast.ListComp, ast.SetComp, ast.GeneratorExp, ast.DictComp)):
            f = facts
            for g in node.generators:
                self.expr(g.iter, f)
                f = f.havoc(target_names(g.target))
                f = self._bind_iter(g.target, g.iter, f)
                for c in g.ifs:
                    self.expr(c, f)
                    f = f.assume(c, True)
            if isinstance(node, ast.DictComp):
                self.expr(node.key, f)
                self.expr(node.value, f)
            else:
                self.expr(node.elt, f)
            return
        if isinstance(node, ast.Lambda):
            f = facts.havoc([a.arg for a in node.args.args + node.args.kwonlyargs])
            self.expr(node.body, f)
            return
        if isinstance(node, ast.Compare):
            # chained comparison: later operands are evaluated only if earlier links held
            f = facts
            self.expr(node.left, f)
            operands = [node.left] + list(node.comparators)
            for op, a, b in zip(node.ops, operands, operands[1:]):
                self.expr(b, f)
                f = f._assume_cmp(self.lz, op, a, b, True, node)
            return
        for ch in ast.iter_child_nodes(node):
            if isinstance(ch, (ast.expr_context, ast.operator, ast.unaryop, ast.cmpop, ast.boolop)):
                continue
            if isinstance(ch, ast.keyword):
                self.expr(ch.value, facts)
            elif isinstance(ch, ast.expr):
                self.expr(ch, facts)
            elif isinstance(ch, ast.comprehension):  # pragma: no cover
                pass


def _walk_same_loop(node: ast.AST):
    """Nodes of a loop body that belong to this loop (does not enter nested loops or functions)."""
    yield node
    if isinstance(node, (ast.For, ast.While, ast.FunctionDef, ast.Lambda, ast.ClassDef)):
        return
    for ch in ast.iter_child_nodes(node):
        yield from _walk_same_loop(ch)


def is_true_const(n: ast.AST) -> bool:
    return isinstance(n, ast.Constant) and n.value is True


PREDICATES: Dict[str, Tuple[List[str], ast.AST]] = {}


def register_predicates(funcs: Dict[str, ast.FunctionDef]) -> None:
    """functions and (static) methods whose body is a single `return <test over the parameters>`; registered by last name.
    A name defined twice with different bodies is dropped."""
    seen: Dict[str, str] = {}
    for q, fn in funcs.items():
        body = [st for st in fn.body if not (isinstance(st, ast.Expr) and isinstance(st.value, ast.Constant))]
        if len(body) != 1 or not isinstance(body[0], ast.Return) or body[0].value is None:
            continue
        e = body[0].value
        if not isinstance(e, (ast.Compare, ast.BoolOp, ast.UnaryOp)):
            continue
        params = [a.arg for a in fn.args.args]
        decos = {dotted(d) for d in fn.decorator_list}
        if "." in q and "staticmethod" not in decos:
            if params[:1] in (["self"], ["cls"]):
                params = params[1:]
        names = {n.id for n in ast.walk(e) if isinstance(n, ast.Name)}
        allowed = set(params) | {"len", "True", "False", "None", "min", "max", "all", "any"} | {dotted(c.func) for c in ast.walk(e) if isinstance(c, ast.Call) and dotted(c.func)}
        if "." in q and "staticmethod" not in decos:
            allowed.add("self")  # attributes of the receiver keep their text (`self.min_block_size`)
        if not names <= allowed:
            continue
        last = q.split(".")[-1]
        text = norm(e) + "|" + ",".join(params)
        if last in seen and seen[last] != text:
            PREDICATES.pop(last, None)
            seen[last] = "<ambiguous>"
            continue
        if seen.get(last) == "<ambiguous>":
            continue
        seen[last] = text
        PREDICATES[last] = (params, e)


def summarise_module(funcs: Dict[str, ast.FunctionDef]) -> Dict[str, Dict[Tuple[Optional[int], int], int]]:
    """For each module-level function: which components of its return value equal a parameter plus a non-negative
    constant on every return path (cursor-advancing helpers: `return value, i + 1`)."""
    lz = L.Linearizer()
    out: Dict[str, Dict[Tuple[Optional[int], int], int]] = {}
    for q, fn in funcs.items():
        if "." in q:
            continue
        params = [a.arg for a in fn.args.args]
        stored = {n.id for n in ast.walk(fn) if isinstance(n, ast.Name) and isinstance(n.ctx, ast.Store)}
        # locals assigned exactly once by a plain `name = expr` (e.g. `end = i + 3`) are read through
        once: Dict[str, ast.AST] = {}
        counts: Dict[str, int] = {}
        for n in ast.walk(fn):
            if isinstance(n, ast.Name) and isinstance(n.ctx, ast.Store):
                counts[n.id] = counts.get(n.id, 0) + 1
        for n in ast.walk(fn):
            if isinstance(n, ast.Assign) and len(n.targets) == 1 and isinstance(n.targets[0], ast.Name) and counts.get(n.targets[0].id) == 1:
                once[n.targets[0].id] = n.value

        def through(e: ast.AST, depth: int = 3) -> ast.AST:
            if depth and isinstance(e, ast.Name) and e.id in once and e.id not in params:
                return through(once[e.id], depth - 1)
            return e
        rets = [r for r in _walk_own_returns(fn)]
        if not rets or any(r.value is None for r in rets):
            continue
        widths = {len(r.value.elts) if isinstance(r.value, ast.Tuple) else None for r in rets}
        if len(widths) != 1:
            continue
        w = widths.pop()
        comps: List[Optional[int]] = list(range(w)) if w is not None else [None]
        summ: Dict[Tuple[Optional[int], int], int] = {}
        for k in comps:
            for j, pn in enumerate(params):
                if pn in stored:
                    continue
                cs: List[int] = []
                for r in rets:
                    e = through(r.value.elts[k] if k is not None else r.value)  # type: ignore[union-attr]
                    f = lz.lin(e)
                    if f is None or set(map(str, L.symbols(f))) != {pn} or f[L.symbols(f)[0]] != 1:
                        break
                    c = L.cval(f)
                    if c < 0 or c != int(c):
                        break
                    cs.append(int(c))
                else:
                    summ[(k, j)] = min(cs)
        if summ:
            out[q] = summ
    return out


def _walk_own_returns(fn: ast.FunctionDef):
    stack: List[ast.AST] = list(fn.body)
    while stack:
        n = stack.pop()
        if isinstance(n, (ast.FunctionDef, ast.AsyncFunctionDef, ast.Lambda, ast.ClassDef)):
            continue
        if isinstance(n, ast.Return):
            yield n
        stack.extend(ast.iter_child_nodes(n))
