"""Findings, known-findings matching, replay files and the evidence writer."""

from __future__ import annotations

import hashlib
import json
import os
import time
from typing import Any, Dict, List, Optional

from .loader import AnalysisError

VERIF = os.path.dirname(os.path.dirname(os.path.dirname(os.path.abspath(__file__))))
KNOWN = os.path.join(VERIF, "known_findings.json")


class Finding:
    def __init__(self, rule: str, file: str, func: str, construct: str, message: str, line: Optional[int]):
        self.rule, self.file, self.func = rule, file, func
        self.construct = " ".join(construct.split())
        self.message, self.line = message, line

    @property
    def key(self) -> str:
        # never contains a line number: keys survive reformatting and unrelated edits
        return f"{self.rule}|{self.file}|{self.func}|{self.construct}"

    def as_dict(self) -> Dict[str, Any]:
        return {
            "rule": self.rule,
            "file": self.file,
            "function": self.func,
            "construct": self.construct,
            "message": self.message,
            "line_hint": self.line,
            "key": self.key,
        }


def load_known() -> Dict[str, Any]:
    if not os.path.exists(KNOWN):
        return {"findings": [], "fixed": []}
    with open(KNOWN, "r", encoding="utf-8") as f:
        return json.load(f)


class Report:
    def __init__(self, prop: str, tier: str, seed: int, repo_root: str, out_dir: Optional[str] = None):
        self.prop, self.tier, self.seed, self.repo_root = prop, tier, seed, repo_root
        self.out_dir = out_dir or VERIF
        self.t0 = time.time()
        self.findings: List[Finding] = []
        self.infos: List[str] = []
        self.undecided: List[str] = []
        self.assumptions: List[str] = []
        self.rule_counts: Dict[str, int] = {}
        self.rule_desc: Dict[str, str] = {}
        self.nontrivial: set = set()
        self.samples: List[Any] = []
        self.evaluations = 0
        self.discharged = 0
        self.files: set = set()
        self.functions: set = set()
        self.extra: Dict[str, Any] = {}
        self.errors: List[str] = []

    # -- bookkeeping -------------------------------------------------------------------------
    def rule(self, rule: str, desc: str) -> None:
        self.rule_desc.setdefault(rule, desc)
        self.rule_counts.setdefault(rule, 0)

    def ok(self, rule: str, what: str, nontrivial: bool = True, sample: bool = False, points: int = 0) -> None:
        """One obligation examined and discharged (``points`` = evaluated grid points behind it)."""
        self.evaluations += 1
        self.discharged += 1
        self.points = getattr(self, "points", 0) + points
        self.rule_counts[rule] = self.rule_counts.get(rule, 0) + 1
        if nontrivial:
            self.nontrivial.add((rule, what))
        if sample or (len(self.samples) < 12 and self.rule_counts[rule] <= 2):
            self.samples.append({"rule": rule, "obligation": what, "result": "discharged"})

    def finding(
        self, rule: str, file: str, func: str, construct: str, message: str, line: Optional[int] = None
    ) -> None:
        self.evaluations += 1
        self.rule_counts[rule] = self.rule_counts.get(rule, 0) + 1
        f = Finding(rule, file, func, construct, message, line)
        if all(g.key != f.key for g in self.findings):
            self.findings.append(f)

    def info(self, msg: str) -> None:
        self.infos.append(msg)

    def undecide(self, rule: str, what: str) -> None:
        self.evaluations += 1
        self.rule_counts[rule] = self.rule_counts.get(rule, 0) + 1
        self.undecided.append(f"{rule}: {what}")

    def assume(self, text: str) -> None:
        if text not in self.assumptions:
            self.assumptions.append(text)

    def saw(self, file: str, func: Optional[str] = None) -> None:
        self.files.add(file)
        if func:
            self.functions.add(f"{file}::{func}")

    def floor(self, rule: str, minimum: int) -> None:
        """A rule that matches fewer instances than were confirmed by hand passes vacuously: refuse."""
        n = self.rule_counts.get(rule, 0)
        if n < minimum:
            raise AnalysisError(
                f"coverage floor undercut: rule {rule} examined {n} instances, at least {minimum} expected"
            )

    def require(self, cond: bool, msg: str) -> None:
        if not cond:
            raise AnalysisError(msg)

    # -- finishing ---------------------------------------------------------------------------
    def _replay_path(self, f: Finding) -> str:
        d = os.path.join(self.out_dir, "replays", self.prop)
        os.makedirs(d, exist_ok=True)
        h = hashlib.sha256(f.key.encode()).hexdigest()[:12]
        return os.path.join(d, f"{f.rule}-{h}.json")

    def finish(self, error: Optional[str] = None, write_evidence: bool = True) -> int:
        known = load_known()
        listed = {(k["property"], k["key"]): k for k in known.get("findings", [])}
        violations: List[Finding] = []
        lines: List[str] = []
        known_hit = 0
        for f in self.findings:
            k = listed.get((self.prop, f.key))
            if k is not None:
                known_hit += 1
                lines.append(f"KNOWN-FINDING: property={self.prop} {f.key} -- {k.get('what', f.message)}")
            else:
                violations.append(f)
        for f in violations:
            path = self._replay_path(f)
            with open(path, "w", encoding="utf-8") as fh:
                json.dump({"property": self.prop, "repo": self.repo_root, **f.as_dict()}, fh, indent=1)
            loc = f"{f.file}:{f.line}" if f.line else f.file
            lines.append(f"  [{f.rule}] {loc} in {f.func}: {f.message}\n      construct: {f.construct}")
            lines.append(f"VIOLATION property={self.prop} replay={path}")
        for i in self.infos:
            lines.append(f"INFO: {i}")
        if self.undecided:
            lines.append(f"UNDECIDED ({len(self.undecided)}): " + "; ".join(self.undecided[:6]))
        code = 1 if violations else 0
        if error is None and self.undecided and not violations:
            # an obligation the analysis could not decide is neither a pass nor a violation
            error = f"{len(self.undecided)} obligation(s) undecided: " + "; ".join(self.undecided[:3])
        if error is not None:
            lines.append(f"ANALYSIS-ERROR property={self.prop} {error}")
            code = 2 if not violations else 1
        wall = time.time() - self.t0
        if write_evidence:
            self._write_evidence(wall, len(violations), known_hit, error)
        summary = (
            f"{self.prop} [{self.tier}] obligations={self.evaluations} discharged={self.discharged} "
            f"findings={len(self.findings)} (known={known_hit}) undecided={len(self.undecided)} "
            f"rules={{{', '.join(f'{r}:{n}' for r, n in sorted(self.rule_counts.items()))}}} wall={wall:.2f}s"
        )
        print("\n".join(lines + [summary]))
        return code

    def _write_evidence(self, wall: float, nviol: int, known_hit: int, error: Optional[str]) -> None:
        d = os.path.join(self.out_dir, "evidence")
        os.makedirs(d, exist_ok=True)
        rules_txt = "; ".join(f"{r} = {self.rule_desc.get(r, '')}" for r in sorted(self.rule_counts))
        ev = {
            "property_id": self.prop,
            "tier": self.tier,
            "seed": self.seed,
            "level": "other",
            "coverage": {
                "explanation": (
                    "Static analysis of the current source tree (ast only; nothing imported or executed). "
                    "Every instance of each rule in the parsed tree is enumerated and decided; "
                    "rules applied: " + rules_txt
                ),
                "evaluations": self.evaluations,
                "distinct_nontrivial": len(self.nontrivial),
                "rule": (
                    "an evaluation is one rule instance (call site, handler, subscript, table row, path); it is "
                    "non-trivial when its discharge needed a computed fact (guard facts, table comparison, "
                    "dataflow) rather than mere presence; distinct by (rule, construct)"
                ),
                "samples": self.samples[:60] or [{"note": "no obligations"}],
                "exhaustive": True,
                "evaluated_points": getattr(self, "points", 0),
                "obligations": self.evaluations,
                "discharged": self.discharged,
                "per_rule_instances": dict(sorted(self.rule_counts.items())),
                "files_analysed": sorted(self.files),
                "functions_analysed": len(self.functions),
                "undecided": self.undecided,
                "known_findings_matched": known_hit,
                "findings": [f.as_dict() for f in self.findings],
                "analysis_error": error,
                **self.extra,
            },
            "assumptions": self.assumptions,
            "wall_s": round(wall, 3),
            "violations": nviol,
        }
        with open(os.path.join(d, f"{self.prop}.json"), "w", encoding="utf-8") as fh:
            json.dump(ev, fh, indent=1, sort_keys=False, default=str)
            fh.write("\n")
