"""Class-aware layer over the finite-domain evaluator: instantiation through the repository's own
__init__ methods, method resolution along the (single-inheritance) MRO, super(), isinstance."""

from __future__ import annotations

import ast
from typing import Any, Callable, Dict, List, Optional

from . import fde
from .fde import FunctionValue, Obj, Tag, Undecided
from .loader import Module, dotted


class ClassWorld:
    def __init__(self, modules: List[Module], extra_funcs: Optional[Dict[str, Any]] = None,
                 pre_env: Optional[Dict[str, Any]] = None):
        self.modules = modules
        self.ev = fde.Evaluator(extra_funcs)
        self.ev.funcs["__super__"] = self._super
        self.genv: Dict[str, Any] = dict(pre_env or {})
        self._pre = set(self.genv)
        self.classes: Dict[str, ast.ClassDef] = {}
        self.class_mod: Dict[str, Module] = {}
        for m in modules:
            for q, c in m.classes.items():
                if "." not in q:
                    self.classes[q] = c
                    self.class_mod[q] = m
        for m in modules:
            for st in m.tree.body:
                if isinstance(st, ast.Assign):
                    for t in st.targets:
                        if isinstance(t, ast.Name) and t.id not in self.genv:
                            self.genv[t.id] = Tag(t.id)
            for q, f in m.funcs.items():
                if "." not in q:
                    self.genv[q] = FunctionValue(f, self.ev, self.genv)
        for name in self.classes:
            self.genv[name] = self._ctor(name)
        self.genv.setdefault("Op", Tag("Op"))
        if "Op" in self.classes:
            self.genv["Op"] = Tag("Op")
        # module-level constants (tables, strings, numbers) are evaluated; anything else stays an opaque tag
        for m in modules:
            for st in m.tree.body:
                if isinstance(st, (ast.Assign, ast.AnnAssign)) and getattr(st, "value", None) is not None:
                    tgts = st.targets if isinstance(st, ast.Assign) else [st.target]
                    if not isinstance(st.value, (ast.Dict, ast.List, ast.Tuple, ast.Constant, ast.BinOp, ast.Set,
                                                 ast.Attribute, ast.Name, ast.UnaryOp, ast.BoolOp, ast.Compare)) and not (
                        isinstance(st.value, ast.Call) and dotted(st.value.func) in ("re.compile",)
                    ):
                        continue
                    try:
                        v = self.ev.eval(st.value, self.genv)
                    except (Undecided, Exception):
                        continue
                    for t in tgts:
                        if isinstance(t, ast.Name) and t.id not in self._pre:
                            self.genv[t.id] = v
        for exc in ("TypeError", "ValueError", "IndexError", "KeyError", "RuntimeError", "NotImplementedError"):
            self.genv[exc] = (lambda exc: lambda *a: Tag(exc))(exc)

    # -- class structure -------------------------------------------------------------------
    def mro(self, name: str) -> List[str]:
        out: List[str] = []
        cur: Optional[str] = name
        seen = set()
        while cur is not None and cur in self.classes and cur not in seen:
            seen.add(cur)
            out.append(cur)
            nxt = None
            for b in self.classes[cur].bases:
                bn = b
                if isinstance(bn, ast.Subscript):
                    bn = bn.value
                d = dotted(bn)
                if d and d.split(".")[-1] in self.classes:
                    nxt = d.split(".")[-1]
                    break
            cur = nxt
        return out

    def find_method(self, cls: str, name: str, after: Optional[str] = None):
        chain = self.mro(cls)
        if after is not None and after in chain:
            chain = chain[chain.index(after) + 1:]
        for c in chain:
            q = f"{c}.{name}"
            m = self.class_mod[c]
            if q in m.funcs:
                return c, m.funcs[q]
        return None, None

    def _resolver(self, obj: Obj, attr: str) -> Any:
        owner, fn = self.find_method(obj.attrs["__class__"], attr)
        if fn is None:
            # class-level constants (e.g. a lookup table defined in the class body)
            for c in self.mro(obj.attrs["__class__"]):
                for st in self.classes[c].body:
                    if isinstance(st, ast.Assign) and any(isinstance(t, ast.Name) and t.id == attr for t in st.targets):
                        return self.ev.eval(st.value, self.genv)
                    if isinstance(st, ast.AnnAssign) and isinstance(st.target, ast.Name) and st.target.id == attr and st.value is not None:
                        return self.ev.eval(st.value, self.genv)
            raise Undecided(f"{obj.attrs['__class__']} has no attribute {attr}")
        if any(dotted(d) == "property" for d in fn.decorator_list):
            return FunctionValue(fn, self.ev, self.genv, self_obj=obj, owner=owner)()
        return FunctionValue(fn, self.ev, self.genv, self_obj=obj, owner=owner)

    def _super(self, self_obj: Any, owner: Optional[str]) -> Obj:
        if not isinstance(self_obj, Obj) or owner is None:
            raise Undecided("super() outside a method")
        proxy = Obj(["super"], name="super")

        def res(_o: Obj, attr: str) -> Any:
            own2, fn = self.find_method(self_obj.attrs["__class__"], attr, after=owner)
            if fn is None:
                if attr == "__init__":
                    return lambda *a, **k: None
                raise Undecided(f"super().{attr} not found")
            return FunctionValue(fn, self.ev, self.genv, self_obj=self_obj, owner=own2)

        proxy.resolver = res
        return proxy

    def _ctor(self, name: str) -> Callable[..., Obj]:
        def make(*args: Any, **kwargs: Any) -> Obj:
            return self.new(name, *args, **kwargs)

        make.class_name = name  # type: ignore[attr-defined]
        return make

    def new(self, cls: str, *args: Any, **kwargs: Any) -> Obj:
        o = Obj(self.mro(cls), __class__=cls, name=cls)
        o.resolver = self._resolver
        owner, init = self.find_method(cls, "__init__")
        if init is not None:
            FunctionValue(init, self.ev, self.genv, self_obj=o, owner=owner)(*args, **kwargs)
        return o

    def adopt(self, obj: Obj, cls: str) -> Obj:
        """Give a hand-made object the methods of the repository class `cls` (resolution along its MRO)."""
        if cls not in self.classes:
            raise Undecided(f"class {cls} not found")
        obj.attrs["__class__"] = cls
        obj.classes |= set(self.mro(cls))
        obj.resolver = self._resolver
        return obj

    def method(self, obj: Obj, name: str) -> FunctionValue:
        owner, fn = self.find_method(obj.attrs["__class__"], name)
        if fn is None:
            raise Undecided(f"no method {name}")
        return FunctionValue(fn, self.ev, self.genv, self_obj=obj, owner=owner)

    def call(self, name: str, *args: Any, **kwargs: Any) -> Any:
        self.ev.steps = 0
        f = self.genv.get(name)
        if f is None:
            raise Undecided(f"no function {name}")
        return f(*args, **kwargs)
