"""Class-aware layer over the finite-domain evaluator: instantiation through the repository's own
__init__ methods, method resolution along the (single-inheritance) MRO, super(), isinstance."""

from __future__ import annotations

import ast
from typing import Any, Callable, Dict, List, Optional

from . import fde
from .fde import FunctionValue, Obj, Tag, Undecided
from .loader import Module, dotted


class ClassWorld:
    def __init__(self, modules: List[Module], extra_funcs: Optional[Dict[str, Any]] = None,
                 pre_env: Optional[Dict[str, Any]] = None):
        self.modules = modules
        self.ev = fde.Evaluator(extra_funcs)
        self.ev.funcs["__super__"] = self._super
        self.genv: Dict[str, Any] = dict(pre_env or {})
        self._pre = set(self.genv)
        self.classes: Dict[str, ast.ClassDef] = {}
        self.class_mod: Dict[str, Module] = {}
        for m in modules:
            for q, c in m.classes.items():
                if "." not in q:
                    self.classes[q] = c
                    self.class_mod[q] = m
        for m in modules:
            for st in m.tree.body:
                if isinstance(st, ast.Assign):
                    for t in st.targets:
                        if isinstance(t, ast.Name) and t.id not in self.genv:
                            self.genv[t.id] = Tag(t.id)
            for q, f in m.funcs.items():
                if "." not in q:
                    self.genv[q] = FunctionValue(f, self.ev, self.genv)
        for name in self.classes:
            self.genv[name] = self._ctor(name)
        self.genv.setdefault("Op", Tag("Op"))
        if "Op" in self.classes:
            self.genv["Op"] = Tag("Op")
        # module-level constants (tables, strings, numbers, tuples of classes, derived tables) are evaluated in source order,
        # as at import time; whatever the evaluator cannot follow stays an opaque tag
        for m in modules:
            for st in m.tree.body:
                if isinstance(st, (ast.Assign, ast.AnnAssign)) and getattr(st, "value", None) is not None:
                    tgts = st.targets if isinstance(st, ast.Assign) else [st.target]
                    if isinstance(st.value, ast.Call) and dotted(st.value.func) not in (
                            "re.compile", "dict", "tuple", "list", "set", "frozenset", "sorted", "zip", "range", "len", "max", "min", "sum", "str", "int", "slice"):
                        continue  # objects built at import time (Config(), combinators, TypeVar...) stay opaque here
                    try:
                        self.ev.steps = 0
                        v = self.ev.eval(st.value, self.genv)
                    except (Undecided, Exception):
                        continue
                    for t in tgts:
                        if isinstance(t, ast.Name) and t.id not in self._pre:
                            self.genv[t.id] = v
                        elif isinstance(t, (ast.Tuple, ast.List)) and all(isinstance(e, ast.Name) for e in t.elts):
                            try:
                                vs = self.ev.iterate(v)
                            except (Undecided, Exception):
                                continue
                            if len(vs) == len(t.elts):
                                for e, x in zip(t.elts, vs):
                                    if e.id not in self._pre:
                                        self.genv[e.id] = x
        for exc in ("TypeError", "ValueError", "IndexError", "KeyError", "RuntimeError", "NotImplementedError"):
            self.genv[exc] = (lambda exc: lambda *a: Tag(exc))(exc)
        # default argument values are computed when the `def` statement runs, i.e. at import: a default such as
        # `flag: bool = config.use_graph_primitive` freezes what the configuration said then.  What cannot be evaluated now is left
        # to the first call (FunctionValue keeps it from then on).
        memo = self.genv.setdefault("__defaults__", {})
        for m in modules:
            for fn in ast.walk(m.tree):
                if not isinstance(fn, (ast.FunctionDef, ast.AsyncFunctionDef)):
                    continue
                params = [a.arg for a in fn.args.posonlyargs + fn.args.args]
                pairs = list(zip(params[len(params) - len(fn.args.defaults):], fn.args.defaults))
                pairs += [(a.arg, d) for a, d in zip(fn.args.kwonlyargs, fn.args.kw_defaults) if d is not None]
                for pname, d in pairs:
                    if isinstance(d, ast.Constant) or (id(fn), pname) in memo:
                        continue
                    try:
                        self.ev.steps = 0
                        v = self.ev.eval(d, self.genv)
                    except (Undecided, Exception):
                        continue
                    if isinstance(v, Tag) or callable(v):
                        continue  # an object this world has not built yet (it stays opaque at creation): bound on first use instead
                    memo[(id(fn), pname)] = v

    # -- class structure -------------------------------------------------------------------
    def _bases(self, name: str) -> List[str]:
        out = []
        for b in self.classes[name].bases:
            bn = b
            if isinstance(bn, ast.Subscript):  # Generic[T], Array1D[BoolExpr]
                bn = bn.value
            d = dotted(bn)
            if d and d.split(".")[-1] in self.classes:
                out.append(d.split(".")[-1])
        return out

    def mro(self, name: str) -> List[str]:
        """C3 linearisation over the classes of the loaded modules (mixins and multiple bases included)"""
        cache = self.__dict__.setdefault("_mro_cache", {})
        if name in cache:
            return list(cache[name])
        if name not in self.classes:
            return []
        bases = self._bases(name)
        seqs = [self.mro(b) for b in bases] + [list(bases)]
        out = [name]
        seqs = [q for q in seqs if q]
        while seqs:
            for q in seqs:
                cand = q[0]
                if not any(cand in r[1:] for r in seqs):
                    break
            else:
                raise Undecided(f"inconsistent class hierarchy at {name}")
            out.append(cand)
            seqs = [[x for x in q if x != cand] for q in seqs]
            seqs = [q for q in seqs if q]
        cache[name] = list(out)
        return out

    def find_method(self, cls: str, name: str, after: Optional[str] = None):
        chain = self.mro(cls)
        if after is not None and after in chain:
            chain = chain[chain.index(after) + 1:]
        for c in chain:
            q = f"{c}.{name}"
            m = self.class_mod[c]
            if q in m.funcs:
                return c, m.funcs[q]
        return None, None

    def namedtuple_fields(self, cls: str) -> Optional[List[str]]:
        """field names if `cls` is declared as `class X(NamedTuple)` with annotated fields"""
        node = self.classes.get(cls)
        if node is None or not any((dotted(b) or "").split(".")[-1] == "NamedTuple" for b in node.bases):
            return None
        return [st.target.id for st in node.body if isinstance(st, ast.AnnAssign) and isinstance(st.target, ast.Name)]

    def _class_namespace(self, cls: str) -> Dict[str, Any]:
        """the names assigned in the class body, evaluated in order in the class scope (module globals + earlier names)"""
        cache = self.__dict__.setdefault("_class_ns", {})
        if cls in cache:
            return cache[cls]
        ns: Dict[str, Any] = {}
        cache[cls] = ns
        for st in self.classes[cls].body:
            if isinstance(st, ast.Assign):
                names = [t.id for t in st.targets if isinstance(t, ast.Name)]
                value = st.value
            elif isinstance(st, ast.AnnAssign) and isinstance(st.target, ast.Name) and st.value is not None:
                names, value = [st.target.id], st.value
            else:
                continue
            if not names:
                continue
            env = dict(self.genv)
            env.update({k: v for k, v in ns.items() if not isinstance(v, Undecided)})
            try:
                v: Any = self.ev.eval(value, env)
            except Undecided as ex:
                v = ex
            for nm in names:
                ns[nm] = v
        return ns

    def _resolver(self, obj: Obj, attr: str) -> Any:
        owner, fn = self.find_method(obj.attrs["__class__"], attr)
        if fn is None and "__fields__" in obj.attrs and attr in ("__iter__", "__getitem__", "__len__"):
            vals = [obj.attrs[f] for f in obj.attrs["__fields__"]]
            if attr == "__iter__":
                return lambda: list(vals)
            if attr == "__len__":
                return lambda: len(vals)
            return lambda k: vals[k] if isinstance(k, (int, slice)) and not isinstance(k, bool) else (_ for _ in ()).throw(Undecided("namedtuple index"))
        if fn is None:
            # class-level constants (e.g. a lookup table defined in the class body, possibly derived from an earlier one)
            for c in self.mro(obj.attrs["__class__"]):
                ns = self._class_namespace(c)
                if attr in ns:
                    if isinstance(ns[attr], Undecided):
                        raise ns[attr]
                    return ns[attr]
            raise Undecided(f"{obj.attrs['__class__']} has no attribute {attr}")
        if any(dotted(d) == "property" for d in fn.decorator_list):
            return FunctionValue(fn, self.ev, self.genv, self_obj=obj, owner=owner)()
        if any((dotted(d) or "").split(".")[-1] == "cached_property" for d in fn.decorator_list):
            # functools.cached_property: computed on first access and then kept in the instance dictionary
            v = FunctionValue(fn, self.ev, self.genv, self_obj=obj, owner=owner)()
            obj.attrs[attr] = v
            return v
        return FunctionValue(fn, self.ev, self.genv, self_obj=obj, owner=owner)

    def _super(self, self_obj: Any, owner: Optional[str]) -> Obj:
        if not isinstance(self_obj, Obj) or owner is None:
            raise Undecided("super() outside a method")
        proxy = Obj(["super"], name="super")

        def res(_o: Obj, attr: str) -> Any:
            own2, fn = self.find_method(self_obj.attrs["__class__"], attr, after=owner)
            if fn is None:
                if attr == "__init__":
                    return lambda *a, **k: None
                raise Undecided(f"super().{attr} not found")
            return FunctionValue(fn, self.ev, self.genv, self_obj=self_obj, owner=own2)

        proxy.resolver = res
        return proxy

    def _ctor(self, name: str) -> Callable[..., Obj]:
        def make(*args: Any, **kwargs: Any) -> Obj:
            return self.new(name, *args, **kwargs)

        make.class_name = name  # type: ignore[attr-defined]
        make.class_attr = lambda attr: self.class_attribute(name, attr)  # type: ignore[attr-defined]
        return make

    def class_attribute(self, cls: str, attr: str) -> Any:
        """`Class.attr`: a method as a plain function (static methods and explicit-self calls), or a class-level constant"""
        owner, fn = self.find_method(cls, attr)
        if fn is not None:
            decos = {dotted(d) for d in fn.decorator_list}
            if "classmethod" in decos:
                return lambda *a, **k: FunctionValue(fn, self.ev, self.genv, self_obj=None, owner=owner)(self.genv[cls], *a, **k)
            return FunctionValue(fn, self.ev, self.genv, self_obj=None, owner=owner)
        for c in self.mro(cls):
            ns = self._class_namespace(c)
            if attr in ns and not isinstance(ns[attr], Undecided):
                return ns[attr]
        raise Undecided(f"{cls} has no attribute {attr}")

    def new(self, cls: str, *args: Any, **kwargs: Any) -> Obj:
        o = Obj(self.mro(cls), __class__=cls, name=cls)
        o.resolver = self._resolver
        fields = self.namedtuple_fields(cls)
        if fields is not None:
            node = self.classes[cls]
            defaults = {st.target.id: st.value for st in node.body
                        if isinstance(st, ast.AnnAssign) and isinstance(st.target, ast.Name) and st.value is not None}
            given = dict(zip(fields, args))
            given.update(kwargs)
            if len(args) > len(fields) or set(given) - set(fields):
                raise fde.Raised("TypeError(unexpected arguments for a NamedTuple)")
            for f in fields:
                if f in given:
                    o.attrs[f] = given[f]
                elif f in defaults:
                    o.attrs[f] = self.ev.eval(defaults[f], self.genv)
                else:
                    raise fde.Raised(f"TypeError(missing field {f})")
            o.attrs["__fields__"] = list(fields)
            o.classes |= {"tuple"}
            return o
        owner, init = self.find_method(cls, "__init__")
        if init is not None:
            FunctionValue(init, self.ev, self.genv, self_obj=o, owner=owner)(*args, **kwargs)
        return o

    def adopt(self, obj: Obj, cls: str) -> Obj:
        """Give a hand-made object the methods of the repository class `cls` (resolution along its MRO)."""
        if cls not in self.classes:
            raise Undecided(f"class {cls} not found")
        obj.attrs["__class__"] = cls
        obj.classes |= set(self.mro(cls))
        obj.resolver = self._resolver
        return obj

    def method(self, obj: Obj, name: str) -> FunctionValue:
        owner, fn = self.find_method(obj.attrs["__class__"], name)
        if fn is None:
            raise Undecided(f"no method {name}")
        return FunctionValue(fn, self.ev, self.genv, self_obj=obj, owner=owner)

    def call(self, name: str, *args: Any, **kwargs: Any) -> Any:
        self.ev.steps = 0
        f = self.genv.get(name)
        if f is None:
            raise Undecided(f"no function {name}")
        return f(*args, **kwargs)
