"""E1: parse the *current* working tree of the repository on every run.

Nothing is imported or executed; every file is read as text and parsed with ``ast``.
The Java reference wrapper is read as text and its string literals are extracted.
"""

from __future__ import annotations

import ast
import hashlib
import os
import re
from typing import Dict, Iterator, List, Optional, Tuple


class AnalysisError(Exception):
    """An anchor vanished / the code left the vocabulary the rules understand.

    This is never turned into a VIOLATION and never into a pass: the check exits 2.
    """


class Module:
    def __init__(self, root: str, rel: str, src: Optional[str] = None):
        self.root = root
        self.rel = rel
        self.path = os.path.join(root, rel)
        if src is None:
            with open(self.path, "r", encoding="utf-8") as f:
                src = f.read()
        self.src = src
        self.digest = hashlib.sha256(self.src.encode("utf-8")).hexdigest()[:16]
        try:
            self.tree = ast.parse(self.src, filename=self.path)
        except SyntaxError as e:  # a tree that does not compile is not ours to judge
            raise AnalysisError(f"{rel}: does not parse: {e}")
        for node in ast.walk(self.tree):
            for child in ast.iter_child_nodes(node):
                child._parent = node  # type: ignore[attr-defined]
        self.tree._parent = None  # type: ignore[attr-defined]
        self._funcs: Optional[Dict[str, ast.AST]] = None
        self._classes: Optional[Dict[str, ast.ClassDef]] = None

    # -- tables -----------------------------------------------------------------------------
    def _index(self) -> None:
        funcs: Dict[str, ast.AST] = {}
        classes: Dict[str, ast.ClassDef] = {}

        def rec(body: List[ast.stmt], prefix: str) -> None:
            for st in body:
                if isinstance(st, (ast.FunctionDef, ast.AsyncFunctionDef)):
                    q = prefix + st.name
                    # keep the *last* definition (overload stubs come first)
                    funcs[q] = st
                    rec(st.body, q + ".")
                elif isinstance(st, ast.ClassDef):
                    q = prefix + st.name
                    classes[q] = st
                    rec(st.body, q + ".")
                elif isinstance(st, (ast.If, ast.Try, ast.With, ast.For, ast.While)):
                    for fld in ("body", "orelse", "finalbody"):
                        rec(getattr(st, fld, []) or [], prefix)
                    for h in getattr(st, "handlers", []) or []:
                        rec(h.body, prefix)

        rec(self.tree.body, "")
        self._funcs, self._classes = funcs, classes

    @property
    def funcs(self) -> Dict[str, ast.FunctionDef]:
        if self._funcs is None:
            self._index()
        return self._funcs  # type: ignore[return-value]

    @property
    def classes(self) -> Dict[str, ast.ClassDef]:
        if self._classes is None:
            self._index()
        return self._classes  # type: ignore[return-value]

    def func(self, qual: str) -> ast.FunctionDef:
        f = self.funcs.get(qual)
        if f is None:
            raise AnalysisError(f"anchor vanished: function {self.rel}::{qual}")
        return f

    def has_func(self, qual: str) -> bool:
        return qual in self.funcs

    def cls(self, name: str) -> ast.ClassDef:
        c = self.classes.get(name)
        if c is None:
            raise AnalysisError(f"anchor vanished: class {self.rel}::{name}")
        return c

    def toplevel_assign(self, name: str) -> Optional[ast.expr]:
        """Value of the last module-level ``name = <expr>`` (or annotated assignment)."""
        val = None
        for st in self.tree.body:
            if isinstance(st, ast.Assign):
                for t in st.targets:
                    if isinstance(t, ast.Name) and t.id == name:
                        val = st.value
            elif isinstance(st, ast.AnnAssign) and isinstance(st.target, ast.Name):
                if st.target.id == name and st.value is not None:
                    val = st.value
        return val

    def import_aliases(self) -> Dict[str, str]:
        """local name -> dotted origin, for module-level and function-level imports."""
        out: Dict[str, str] = {}
        pkg = self.rel[:-3].replace("/", ".").split(".")
        for node in ast.walk(self.tree):
            if isinstance(node, ast.Import):
                for a in node.names:
                    out[a.asname or a.name.split(".")[0]] = a.name if a.asname else a.name.split(".")[0]
            elif isinstance(node, ast.ImportFrom):
                base = node.module or ""
                if node.level:
                    up = pkg[: len(pkg) - node.level]
                    base = ".".join(up + ([base] if base else []))
                for a in node.names:
                    out[a.asname or a.name] = (base + "." + a.name) if base else a.name
        return out


class Repo:
    """All python sources of the repository plus the Java reference wrapper."""

    PY_DIRS = ("cspuz", "bench", "tests")

    def __init__(self, root: str, overrides: Optional[Dict[str, str]] = None):
        """``overrides`` maps a relative path to replacement source text (used only by the self-validation
        of the rules: a mutant of one file is analysed without copying the tree)."""
        self.root = os.path.abspath(root)
        self.overrides = dict(overrides or {})
        if not os.path.isdir(os.path.join(self.root, "cspuz")):
            raise AnalysisError(f"{root}: no cspuz package found")
        self.modules: Dict[str, Module] = {}
        for d in self.PY_DIRS:
            base = os.path.join(self.root, d)
            for dirpath, dirnames, filenames in os.walk(base):
                dirnames[:] = sorted(x for x in dirnames if x != "__pycache__")
                for fn in sorted(filenames):
                    if fn.endswith(".py"):
                        rel = os.path.relpath(os.path.join(dirpath, fn), self.root)
                        self.modules[rel] = Module(self.root, rel, self.overrides.get(rel))
        self._java: Optional[str] = None

    def mod(self, rel: str) -> Module:
        m = self.modules.get(rel)
        if m is None:
            raise AnalysisError(f"anchor vanished: file {rel}")
        return m

    def has(self, rel: str) -> bool:
        return rel in self.modules

    def iter(self, prefix: str) -> Iterator[Module]:
        for rel, m in self.modules.items():
            if rel.startswith(prefix):
                yield m

    # -- java ------------------------------------------------------------------------------
    JAVA = "sugar_extension/CspuzSugarInterface.java"

    def java_src(self) -> str:
        if self._java is None and self.JAVA in self.overrides:
            self._java = self.overrides[self.JAVA]
        if self._java is None:
            p = os.path.join(self.root, self.JAVA)
            if not os.path.exists(p):
                raise AnalysisError(f"anchor vanished: file {self.JAVA}")
            with open(p, "r", encoding="utf-8") as f:
                self._java = f.read()
        return self._java

    def read_text(self, rel: str) -> str:
        if rel in self.overrides:
            return self.overrides[rel]
        p = os.path.join(self.root, rel)
        if not os.path.exists(p):
            raise AnalysisError(f"anchor vanished: file {rel}")
        with open(p, "r", encoding="utf-8") as f:
            return f.read()


# ------------------------------------------------------------------------------------------
# small AST helpers shared by every rule
# ------------------------------------------------------------------------------------------


def norm(node: ast.AST) -> str:
    """Normalised text of a construct: formatting-, comment- and position-independent."""
    try:
        return ast.unparse(node)
    except Exception:  # pragma: no cover
        return ast.dump(node)


def short(node: ast.AST, n: int = 110) -> str:
    s = " ".join(norm(node).split())
    return s if len(s) <= n else s[: n - 3] + "..."


def parent(node: ast.AST) -> Optional[ast.AST]:
    return getattr(node, "_parent", None)


def enclosing_function(node: ast.AST) -> Optional[ast.FunctionDef]:
    p = parent(node)
    while p is not None and not isinstance(p, (ast.FunctionDef, ast.AsyncFunctionDef)):
        p = parent(p)
    return p  # type: ignore[return-value]


def qualname(node: ast.AST) -> str:
    names: List[str] = []
    p: Optional[ast.AST] = node
    while p is not None:
        if isinstance(p, (ast.FunctionDef, ast.AsyncFunctionDef, ast.ClassDef)):
            names.append(p.name)
        p = parent(p)
    return ".".join(reversed(names)) or "<module>"


def dotted(node: ast.AST) -> Optional[str]:
    """``a.b.c`` for Name/Attribute chains, else None."""
    parts: List[str] = []
    while isinstance(node, ast.Attribute):
        parts.append(node.attr)
        node = node.value
    if isinstance(node, ast.Name):
        parts.append(node.id)
        return ".".join(reversed(parts))
    return None


def call_name(node: ast.AST) -> Optional[str]:
    if isinstance(node, ast.Call):
        return dotted(node.func)
    return None


def is_const(node: ast.AST, value=...) -> bool:
    if not isinstance(node, ast.Constant):
        return False
    if value is ...:
        return True
    return node.value is value or (type(node.value) is type(value) and node.value == value)


def strip_docstring(body: List[ast.stmt]) -> List[ast.stmt]:
    if body and isinstance(body[0], ast.Expr) and isinstance(body[0].value, ast.Constant) and isinstance(
        body[0].value.value, str
    ):
        return body[1:]
    return body


def func_digest(fn: ast.AST) -> str:
    """Digest of a function's normalised text (docstring removed)."""
    import copy

    f2 = copy.deepcopy(fn)
    if hasattr(f2, "body"):
        f2.body = strip_docstring(f2.body) or [ast.Pass()]
    return hashlib.sha256(norm(f2).encode()).hexdigest()[:12]


def walk_no_nested(node: ast.AST) -> Iterator[ast.AST]:
    """ast.walk that does not descend into nested function/class definitions or lambdas."""
    stack = list(ast.iter_child_nodes(node))
    while stack:
        n = stack.pop()
        yield n
        if isinstance(n, (ast.FunctionDef, ast.AsyncFunctionDef, ast.ClassDef, ast.Lambda)):
            continue
        stack.extend(ast.iter_child_nodes(n))


JAVA_STRING = re.compile(r'"((?:[^"\\]|\\.)*)"')


def java_unescape(s: str) -> str:
    return s.replace("\\t", "\t").replace("\\n", "\n").replace('\\"', '"').replace("\\\\", "\\")
