"""E8: finite-domain evaluation of *source expressions*.

A small evaluator over the handful of expression/statement forms the translators and helper
constructors use.  Operand leaves are abstract: integers are either members of a finite grid that is
a complete quotient for the comparison vocabulary, or symbolic linear forms (class ``Lin``) for
arithmetic results; booleans range over all assignments.  Anything outside the vocabulary raises
``Undecided`` - it is never guessed.
"""

from __future__ import annotations

import ast
import itertools
import re as _re
from fractions import Fraction
from typing import Any, Callable, Dict, List, Optional

from .loader import dotted, norm


class Undecided(Exception):
    pass


class Lin:
    """symbolic integer: linear form over named operand symbols"""

    __slots__ = ("f",)

    def __init__(self, f: Dict[Any, Fraction]):
        self.f = {k: v for k, v in f.items() if v != 0}

    @staticmethod
    def sym(name: str) -> "Lin":
        return Lin({name: Fraction(1)})

    @staticmethod
    def of(v: Any) -> "Lin":
        if isinstance(v, Lin):
            return v
        if isinstance(v, bool):
            raise Undecided("bool used as integer")
        if isinstance(v, int):
            return Lin({1: Fraction(v)})
        raise Undecided(f"not an integer value: {v!r}")

    def __add__(self, o: Any) -> "Lin":
        o = Lin.of(o)
        out = dict(self.f)
        for k, v in o.f.items():
            out[k] = out.get(k, Fraction(0)) + v
        return Lin(out)

    __radd__ = __add__

    def __neg__(self) -> "Lin":
        return Lin({k: -v for k, v in self.f.items()})

    def __sub__(self, o: Any) -> "Lin":
        return self + (-Lin.of(o))

    def __rsub__(self, o: Any) -> "Lin":
        return Lin.of(o) + (-self)

    def __eq__(self, o: Any) -> bool:  # structural
        return isinstance(o, Lin) and self.f == o.f

    def __hash__(self) -> int:
        return hash(tuple(sorted((str(k), v) for k, v in self.f.items())))

    def __repr__(self) -> str:
        return "Lin(" + " + ".join(f"{v}*{k}" for k, v in sorted(self.f.items(), key=lambda kv: str(kv[0]))) + ")"


class KInt(int):
    """an integer carrying a row/column qualifier ('R' / 'C'): abstract kind of a size or index derived from height / width"""

    def __new__(cls, v: int, kind: Optional[str], role: Optional[str] = None) -> "KInt":
        o = int.__new__(cls, v)
        o.kind = kind
        # provenance within the kind: "ext" = the board extent itself (height / width, +- a constant),
        # "idx" = a position obtained by iterating over a range of that extent (+- anything of the same kind)
        o.role = role
        return o


def kind_of(x: Any) -> Optional[str]:
    return getattr(x, "kind", None) if isinstance(x, int) and not isinstance(x, bool) else None


class TList(list):
    """a list built by iterating over a kinded range: it is indexed by that kind"""

    axis: Optional[str] = None


def _krange(*a: Any) -> Any:
    kinds = {kind_of(x) for x in a} - {None}
    if len(a) == 3 and isinstance(a[2], int) and a[2] == 0:
        raise Raised("ValueError(range() arg 3 must not be zero)")
    r = range(*[int(x) for x in a])
    if len(kinds) == 1:
        k = kinds.pop()
        return [KInt(v, k, "idx") for v in r]
    return r


def _kminmax(f: Callable[..., Any]) -> Callable[..., Any]:
    def g(*a: Any, **kw: Any) -> Any:
        r = f(*a, **kw)
        items = a[0] if len(a) == 1 and isinstance(a[0], (list, tuple)) else a
        kinds = {kind_of(x) for x in items} - {None}
        if len(kinds) > 1 and isinstance(r, int) and not isinstance(r, bool):
            return int(r)
        return r

    return g


class Tag:
    """an opaque named constant (enum member, class object)"""

    __slots__ = ("name",)

    def __init__(self, name: str):
        self.name = name

    def __eq__(self, o: Any) -> bool:
        return isinstance(o, Tag) and o.name == self.name

    def __hash__(self) -> int:
        return hash(("Tag", self.name))

    def __repr__(self) -> str:
        return f"<{self.name}>"


class Obj:
    """abstract object with attributes and a set of class names it is an instance of"""

    def __init__(self, classes: List[str], **attrs: Any):
        self.classes = set(classes)
        self.attrs = dict(attrs)
        self.stores: List[Any] = []
        self.resolver: Any = None

    def __repr__(self) -> str:
        return f"Obj({sorted(self.classes)}, {self.attrs.get('name', '')})"


class Closure:
    def __init__(self, node: ast.Lambda, env: Dict[str, Any], ev: "Evaluator"):
        self.node, self.env, self.ev = node, env, ev

    def __call__(self, *args: Any) -> Any:
        env = dict(self.env)
        params = [a.arg for a in self.node.args.args]
        if len(params) != len(args):
            raise Undecided("lambda arity")
        env.update(zip(params, args))
        return self.ev.eval(self.node.body, env)


_GEN: Dict[Any, bool] = {}  # keyed by the function node itself (an id() can be handed out again after a tree is collected)


def _walk_own(fn: ast.AST):
    """nodes of a function body excluding nested function/lambda/class bodies"""
    stack = list(ast.iter_child_nodes(fn))
    while stack:
        n = stack.pop()
        yield n
        if isinstance(n, (ast.FunctionDef, ast.AsyncFunctionDef, ast.Lambda, ast.ClassDef)):
            continue
        stack.extend(ast.iter_child_nodes(n))


class FunctionValue:
    """a function of the analysed module, interpreted on abstract arguments"""

    def __init__(self, fn: ast.FunctionDef, ev: "Evaluator", genv: Dict[str, Any], self_obj: Any = None,
                 owner: Optional[str] = None):
        self.fn, self.ev, self.genv, self.self_obj, self.owner = fn, ev, genv, self_obj, owner

    def __call__(self, *args: Any, **kwargs: Any) -> Any:
        fn = self.fn
        decos = {dotted(d) if not isinstance(d, ast.Call) else dotted(d.func) for d in fn.decorator_list}
        if decos and not self.__dict__.get("_memo_bypass"):
            known = {"staticmethod", "classmethod", "property", "overload", "typing.overload", "abstractmethod", "abc.abstractmethod",
                     "cached_property", "functools.cached_property"}
            memo = {"functools.lru_cache", "lru_cache", "functools.cache", "cache"}
            for d in decos:
                if d is None or (d not in known and d not in memo and not (d or "").endswith(".setter")):
                    raise Undecided(f"decorator {d} on {fn.name}")
            if decos & memo:
                # functools.lru_cache: one result object per distinct argument tuple, handed out again on every later call
                def hk(v: Any) -> Any:
                    if isinstance(v, (list, dict, set)):
                        raise Raised(f"TypeError(\"unhashable type: '{type(v).__name__}'\")")
                    if isinstance(v, tuple):
                        return ("t",) + tuple(hk(x) for x in v)
                    if isinstance(v, (int, float)):
                        return ("n", v)  # 1, 1.0 and True are one key (typed=False)
                    if isinstance(v, (str, type(None))):
                        return (type(v).__name__, v)
                    return ("id", id(v))
                key = (tuple(hk(a) for a in args), tuple(sorted((k, hk(v)) for k, v in kwargs.items())))
                table = self.genv.setdefault("__memo__", {}).setdefault(id(fn), {})
                if key in table:
                    return table[key][1]
                inner = FunctionValue(fn, self.ev, self.genv, self.self_obj, self.owner)
                inner._memo_bypass = True
                r = inner(*args, **kwargs)
                table[key] = (args, r)  # the arguments are kept alive with the entry, as the real cache does
                return r
        env = dict(self.genv)
        if self.self_obj is not None and "staticmethod" in decos:
            pass  # no receiver is passed
        elif self.self_obj is not None and "classmethod" in decos:
            cls_name = self.self_obj.attrs.get("__class__") if isinstance(self.self_obj, Obj) else None
            args = (self.genv.get(cls_name, Tag(str(cls_name))),) + tuple(args)
        elif self.self_obj is not None:
            args = (self.self_obj,) + tuple(args)
            env["__self__"] = self.self_obj
        if self.owner is not None:
            env["__owner__"] = self.owner
        params = [a.arg for a in fn.args.posonlyargs + fn.args.args]
        defaults = fn.args.defaults
        dmap = {}
        for p, d in zip(params[len(params) - len(defaults):], defaults):
            dmap[p] = d
        for a, d in zip(fn.args.kwonlyargs, fn.args.kw_defaults):
            if d is not None:
                dmap[a.arg] = d
        if fn.args.vararg is not None:
            env[fn.args.vararg.arg] = tuple(args[len(params):])
            args = args[: len(params)]
        if len(args) > len(params):
            raise Undecided(f"too many arguments for {fn.name}")
        for p, v in zip(params, args):
            env[p] = v
        if fn.args.kwarg is not None:
            known = set(params) | {a.arg for a in fn.args.kwonlyargs}
            env[fn.args.kwarg.arg] = {k: v for k, v in kwargs.items() if k not in known}
            kwargs = {k: v for k, v in kwargs.items() if k in known}
        else:
            known = set(params) | {a.arg for a in fn.args.kwonlyargs}
            for k in kwargs:
                if k not in known:
                    raise Raised(f"TypeError(unexpected keyword argument {k})")
        for p in params[len(args):] + [a.arg for a in fn.args.kwonlyargs]:
            if p in kwargs:
                env[p] = kwargs[p]
            elif p in dmap:
                if isinstance(dmap[p], ast.Constant):
                    env[p] = dmap[p].value
                else:
                    # a default value is computed once, when the function is defined, and the same object serves every later call;
                    # here: on the first call that needs it, in the globals of that moment, and kept for this world
                    memo = self.genv.setdefault("__defaults__", {})
                    key = (id(fn), p)
                    if key not in memo:
                        memo[key] = self.ev.eval(dmap[p], self.genv)
                    env[p] = memo[key]
            else:
                raise Undecided(f"missing argument {p} for {fn.name}")
        isgen = _GEN.get(fn)
        if isgen is None:
            isgen = any(isinstance(st, (ast.Yield, ast.YieldFrom)) for st in _walk_own(fn))
            _GEN[fn] = isgen
        if isgen:
            # generator functions are evaluated eagerly: the yielded values are collected into a list
            env["__yields__"] = []
        self.ev.depth += 1
        if self.ev.depth > 40:
            raise Undecided("recursion depth")
        try:
            r = self.ev.run(fn.body, env)
        finally:
            self.ev.depth -= 1
            for gname in env.get("__globals__", ()):
                if gname in env:
                    self.genv[gname] = env[gname]
        if isgen:
            return OneShot(env["__yields__"])  # a generator object: its items can be taken once
        return None if r is FELL else r


class OneShot(list):
    """a one-shot iterable (generator expression, map, zip): iterating it a second time yields nothing"""

    def __repr__(self) -> str:
        return f"OneShot({list.__repr__(self)})"


class _Deque(list):
    """collections.deque with the few methods the generator uses"""

    def popleft(self) -> Any:
        if not self:
            raise Raised("IndexError(pop from an empty deque)")
        return self.pop(0)

    def appendleft(self, x: Any) -> None:
        self.insert(0, x)


class _Closure2:
    """nested def: closes over the defining environment by reference (reads current values at call time)"""

    def __init__(self, fn: ast.FunctionDef, ev: "Evaluator", env: Dict[str, Any]):
        self.fn, self.ev, self.env = fn, ev, env

    def __call__(self, *args: Any, **kwargs: Any) -> Any:
        return FunctionValue(self.fn, self.ev, self.env)(*args, **kwargs)


class Return(Exception):
    def __init__(self, value: Any):
        self.value = value


def _cmp_guard(a: Any, b: Any) -> None:
    if isinstance(a, Lin) or isinstance(b, Lin):
        raise Undecided("ordering comparison on a symbolic integer")


class Evaluator:
    def __init__(self, funcs: Optional[Dict[str, Callable[..., Any]]] = None, max_steps: int = 20000):
        self.funcs: Dict[str, Callable[..., Any]] = dict(BUILTINS)
        if funcs:
            self.funcs.update(funcs)
        self.steps = 0
        self.depth = 0
        self.max_loop = 200
        self.strict_index = False
        self.events: List[Any] = []
        self.kind_events: List[Any] = []
        self.order_events: List[Any] = []
        self.max_steps = max_steps
        # the stdlib `operator` module: the same dispatch the corresponding syntax gets
        _dummy = ast.Constant(value=None)
        for nm, cls in (("add", ast.Add), ("sub", ast.Sub), ("mul", ast.Mult), ("floordiv", ast.FloorDiv), ("mod", ast.Mod),
                        ("truediv", ast.Div), ("and_", ast.BitAnd), ("or_", ast.BitOr), ("xor", ast.BitXor),
                        ("lshift", ast.LShift), ("rshift", ast.RShift), ("pow", ast.Pow)):
            self.funcs.setdefault(f"operator.{nm}", (lambda c: lambda a, b: self.binop(c(), a, b, _dummy))(cls))
        for nm, cls in (("eq", ast.Eq), ("ne", ast.NotEq), ("lt", ast.Lt), ("le", ast.LtE), ("gt", ast.Gt), ("ge", ast.GtE),
                        ("is_", ast.Is), ("is_not", ast.IsNot)):
            self.funcs.setdefault(f"operator.{nm}", (lambda c: lambda a, b: self.compare(c(), a, b))(cls))
        self.funcs.setdefault("operator.contains", lambda a, b: self.compare(ast.In(), b, a))
        self.funcs.setdefault("operator.not_", lambda a: not self.truth(a))
        self.funcs.setdefault("operator.truth", lambda a: self.truth(a))
        self.funcs.setdefault("operator.neg", lambda a: self.eval(ast.UnaryOp(op=ast.USub(), operand=ast.Name(id="_x", ctx=ast.Load())), {"_x": a}))
        self.funcs.setdefault("operator.invert", lambda a: self.eval(ast.UnaryOp(op=ast.Invert(), operand=ast.Name(id="_x", ctx=ast.Load())), {"_x": a}))
        self.funcs.setdefault("operator.inv", self.funcs["operator.invert"])
        self.funcs.setdefault("operator.getitem", lambda a, k: self.eval(
            ast.Subscript(value=ast.Name(id="_a", ctx=ast.Load()), slice=ast.Name(id="_k", ctx=ast.Load()), ctx=ast.Load()), {"_a": a, "_k": k}))
        self.funcs.setdefault("operator.itemgetter", lambda *ks: (lambda a: self.funcs["operator.getitem"](a, ks[0]) if len(ks) == 1
                                                                  else tuple(self.funcs["operator.getitem"](a, k) for k in ks)))
        self.funcs.setdefault("importlib.import_module", self._import_module)
        self.funcs.setdefault("divmod", lambda a, b: (self.binop(ast.FloorDiv(), a, b, _dummy), self.binop(ast.Mod(), a, b, _dummy)))

    def _import_module(self, name: Any, package: Any = None) -> Any:
        if not isinstance(name, str):
            raise Undecided("import_module of abstract name")
        hook = self.funcs.get("__import__")
        if hook is None:
            raise Undecided("call of importlib.import_module")
        hook(name, {})
        return Tag(name)

    # -- expressions -------------------------------------------------------------------------
    def eval(self, n: ast.AST, env: Dict[str, Any]) -> Any:
        self.steps += 1
        if self.steps > self.max_steps:
            raise Undecided("evaluation budget exceeded")
        if isinstance(n, ast.Constant):
            return n.value
        if isinstance(n, ast.Name):
            if n.id in env:
                return env[n.id]
            if n.id in self.funcs:
                return self.funcs[n.id]
            if n.id in ("True", "False", "None"):
                return {"True": True, "False": False, "None": None}[n.id]
            raise Undecided(f"unbound name {n.id}")
        if isinstance(n, ast.Attribute):
            d = dotted(n)
            if d is not None and d in self.funcs:
                return self.funcs[d]
            if d is not None and d in env:
                return env[d]
            base = self.eval(n.value, env)
            if isinstance(base, (str, list, dict, tuple, set)) and n.attr in _SAFE_METHODS.get(type(base).__name__, ()):
                return _bound(base, n.attr)
            if (base is None or type(base) in (bool, int, float, str, list, tuple, dict, set, frozenset)) and not hasattr(base, n.attr):
                # a plain Python value where an object of the library was expected (`flag.then(..)` on the constant True)
                raise Raised(f"AttributeError('{type(base).__name__}' object has no attribute '{n.attr}')")
            if isinstance(base, _re.Pattern) and n.attr in ("match", "fullmatch", "search"):
                return _strfn(getattr(base, n.attr))
            if isinstance(base, _re.Match) and n.attr in ("group", "groups"):
                return getattr(base, n.attr)
            if isinstance(base, (slice, range)) and n.attr in ("start", "stop", "step"):
                return getattr(base, n.attr)
            if isinstance(base, slice) and n.attr == "indices":
                return lambda size: base.indices(size) if isinstance(size, int) else (_ for _ in ()).throw(Undecided("indices"))
            if isinstance(base, Obj):
                if n.attr in base.attrs:
                    return base.attrs[n.attr]
                if base.resolver is not None:
                    return base.resolver(base, n.attr)
                raise Undecided(f"unknown attribute {n.attr}")
            if isinstance(base, Tag):
                return Tag(base.name + "." + n.attr)
            if callable(base) and hasattr(base, "class_attr"):
                return base.class_attr(n.attr)  # Class.method / Class.CONSTANT
            raise Undecided(f"attribute {norm(n)}")
        if isinstance(n, (ast.List, ast.Tuple)):
            out: List[Any] = []
            for e in n.elts:
                if isinstance(e, ast.Starred):
                    out.extend(self.iterate(self.eval(e.value, env)))  # unpacking walks (and exhausts) an iterator
                else:
                    out.append(self.eval(e, env))
            return out if isinstance(n, ast.List) else tuple(out)
        if isinstance(n, ast.Set):
            return {self.eval(e, env) for e in n.elts}
        if isinstance(n, ast.UnaryOp):
            v = self.eval(n.operand, env)
            if isinstance(n.op, ast.USub):
                m = self._obj_method(v, "__neg__")
                if m is not None:
                    return m()
                if isinstance(v, bool):
                    return -int(v)
                if isinstance(v, KInt):
                    return KInt(-int(v), v.kind)
                return -v
            if isinstance(n.op, ast.Not):
                return not self.truth(v)
            if isinstance(n.op, ast.Invert):
                m = self._obj_method(v, "__invert__")
                if m is not None:
                    return m()
                f = self.funcs.get("__invert__")
                if f:
                    return f(v)
                if isinstance(v, int) and not isinstance(v, KInt):
                    return ~int(v)  # on a Python bool too: ~True is -2, not False
            if isinstance(n.op, ast.UAdd) and isinstance(v, (int, float)) and not isinstance(v, bool):
                return v
            raise Undecided(f"unary {norm(n)}")
        if isinstance(n, ast.BinOp):
            a, b = self.eval(n.left, env), self.eval(n.right, env)
            return self.binop(n.op, a, b, n)
        if isinstance(n, ast.BoolOp):
            if isinstance(n.op, ast.And):
                v: Any = True
                for e in n.values:
                    v = self.eval(e, env)
                    if not self.truth(v):
                        return v
                return v
            v = False
            for e in n.values:
                v = self.eval(e, env)
                if self.truth(v):
                    return v
            return v
        if isinstance(n, ast.Compare):
            left = self.eval(n.left, env)
            for op, c in zip(n.ops, n.comparators):
                right = self.eval(c, env)
                if self.strict_index and isinstance(op, (ast.Lt, ast.LtE, ast.Gt, ast.GtE)) and isinstance(left, KInt) and isinstance(right, KInt):
                    # a position along one axis bounded by the extent of the other axis (`y + l < width`)
                    for pos, ext in ((left, right), (right, left)):
                        if pos.kind and ext.kind and pos.kind != ext.kind and pos.role == "idx" and ext.role == "ext":
                            self.kind_events.append((norm(n), norm(n.left if pos is left else c), pos.kind, "cmp:" + ext.kind, getattr(n, "lineno", None)))
                r = self.compare(op, left, right)
                if len(n.ops) == 1:
                    return r
                if not self.truth(r):
                    return r if len(n.ops) == 1 else False
                left = right
                last = r
            return last if len(n.ops) == 1 else True
        if isinstance(n, ast.IfExp):
            return self.eval(n.body if self.truth(self.eval(n.test, env)) else n.orelse, env)
        if isinstance(n, ast.Slice):
            return slice(
                None if n.lower is None else self.eval(n.lower, env),
                None if n.upper is None else self.eval(n.upper, env),
                None if n.step is None else self.eval(n.step, env),
            )
        if isinstance(n, ast.Subscript):
            base = self.eval(n.value, env)
            if isinstance(base, Obj) and base.resolver is not None:
                key = self.eval(n.slice, env)
                if self.strict_index:
                    self._strict(n, n.slice, key)
                self._enter()
                try:
                    return base.resolver(base, "__getitem__")(key)
                finally:
                    self.depth -= 1
            if isinstance(n.slice, ast.Slice):
                lo = None if n.slice.lower is None else self.eval(n.slice.lower, env)
                hi = None if n.slice.upper is None else self.eval(n.slice.upper, env)
                st = None if n.slice.step is None else self.eval(n.slice.step, env)
                if self.strict_index:
                    self._strict(n, n.slice, slice(lo, hi, st))
                if not isinstance(base, (list, tuple, str)):
                    raise Undecided("slice of non-sequence")
                return base[slice(lo, hi, st)]
            idx = self.eval(n.slice, env)
            if self.strict_index and isinstance(base, (list, tuple, str)):
                self._strict(n, n.slice, idx, getattr(base, "axis", None))
            if isinstance(base, dict):
                try:
                    if idx in base:
                        return base[idx]
                    if getattr(base, "default_factory", None) is not None:
                        return base[idx]  # collections.defaultdict: a missing key is created by the factory
                except TypeError:
                    raise Undecided("unhashable key")
                raise Raised(f"KeyError({idx!r})")
            if isinstance(base, (list, tuple, str)) and isinstance(idx, slice):
                return base[idx]
            if isinstance(base, _re.Match) and isinstance(idx, int):
                try:
                    return base[idx]
                except IndexError:
                    raise Raised("IndexError(no such group)")
            if isinstance(base, (list, tuple, str)) and isinstance(idx, int) and not isinstance(idx, bool):
                if -len(base) <= idx < len(base):
                    return base[idx]
                raise IndexOutOfRange(norm(n), idx, len(base))
            if base is None:
                raise Raised("TypeError(NoneType is not subscriptable)")
            raise Undecided(f"subscript {norm(n)}")
        if isinstance(n, ast.Call):
            return self.call(n, env)
        if isinstance(n, ast.Lambda):
            return Closure(n, env, self)
        if isinstance(n, ast.GeneratorExp):
            r = self.comp(n, env)
            return r if isinstance(r, TList) else OneShot(r)  # a generator expression yields its items once
        if isinstance(n, ast.ListComp):
            return self.comp(n, env)
        if isinstance(n, ast.SetComp):
            fake = ast.ListComp(elt=n.elt, generators=n.generators)
            return set(self.comp(fake, env))
        if isinstance(n, ast.DictComp):
            fake = ast.ListComp(elt=ast.Tuple(elts=[n.key, n.value], ctx=ast.Load()), generators=n.generators)
            return {k: v for k, v in self.comp(fake, env)}
        if isinstance(n, ast.NamedExpr):
            v = self.eval(n.value, env)
            self.bind(n.target, v, env)
            return v
        if isinstance(n, ast.Dict):
            return {self.eval(k, env): self.eval(v, env) for k, v in zip(n.keys, n.values) if k is not None}
        if isinstance(n, ast.JoinedStr):
            out_s = ""
            for part in n.values:
                if isinstance(part, ast.Constant):
                    out_s += str(part.value)
                elif isinstance(part, ast.FormattedValue):
                    v = self.eval(part.value, env)
                    if not (_plain(v) or isinstance(v, float)):
                        raise Undecided("f-string of abstract value")
                    if isinstance(v, KInt):
                        v = int(v)
                    spec = ""
                    if part.format_spec is not None:
                        spec = self.eval(part.format_spec, env)  # itself a JoinedStr
                    if part.conversion == 114:
                        v = repr(v)
                    elif part.conversion == 97:
                        v = ascii(v)
                    elif part.conversion == 115:
                        v = str(v)
                    try:
                        out_s += format(v, spec)
                    except (TypeError, ValueError) as ex:
                        raise Raised(f"{type(ex).__name__}({ex})")
            return out_s
        raise Undecided(f"expression form {type(n).__name__}")

    def comp(self, n: ast.AST, env: Dict[str, Any]) -> List[Any]:
        out: List[Any] = []

        # one scope for the whole comprehension, as in Python: the loop variables are *rebound* in it, so a lambda or nested def
        # created inside sees the value current when it is called (late binding), not the one at its creation
        scope = dict(env)

        def rec(i: int) -> None:
            if i == len(n.generators):  # type: ignore[attr-defined]
                out.append(self.eval(n.elt, scope))  # type: ignore[attr-defined]
                return
            g = n.generators[i]  # type: ignore[attr-defined]
            for item in self.iterate(self.eval(g.iter, scope)):
                self.bind(g.target, item, scope)
                if all(self.truth(self.eval(c, scope)) for c in g.ifs):
                    rec(i + 1)

        rec(0)
        if isinstance(n, ast.ListComp) and len(n.generators) == 1:
            try:
                src = self.eval(n.generators[0].iter, env)
            except Undecided:
                src = None
            if isinstance(src, list) and src and all(isinstance(x, KInt) for x in src):
                ks = {x.kind for x in src}
                if len(ks) == 1 and None not in ks:
                    t = TList(out)
                    t.axis = ks.pop()
                    return t
        return out

    def _strict(self, whole: ast.AST, sl: ast.AST, key: Any, base_axis: Optional[str] = None) -> None:
        """record computed (non-literal) negative indices / slice bounds: they silently wrap to the far edge"""
        def literal_neg(e: Optional[ast.AST]) -> bool:
            return e is None or isinstance(e, ast.Constant) or (
                isinstance(e, ast.UnaryOp) and isinstance(e.op, ast.USub) and isinstance(e.operand, ast.Constant))

        def one(e: Optional[ast.AST], v: Any, axis: Optional[str] = None) -> None:
            if isinstance(e, ast.Slice):
                if isinstance(v, slice):
                    one(e.lower, v.start, axis)
                    one(e.upper, v.stop, axis)
                return
            if isinstance(v, int) and not isinstance(v, bool) and v < 0 and not literal_neg(e):
                self.events.append((norm(whole), norm(e) if e is not None else "", v, getattr(whole, "lineno", None)))
            k = kind_of(v)
            if axis is not None and k is not None and k != axis:
                self.kind_events.append((norm(whole), norm(e) if e is not None else "", k, axis, getattr(whole, "lineno", None)))

        if isinstance(sl, ast.Tuple) and isinstance(key, tuple) and len(sl.elts) == len(key):
            axes: List[Optional[str]] = ["R", "C"] if len(key) == 2 else [None] * len(key)
            for e, v, ax in zip(sl.elts, key, axes):
                one(e, v, ax)
        elif base_axis is not None and not isinstance(sl, ast.Slice):
            one(sl, key, base_axis)
        elif isinstance(sl, ast.Slice):
            one(sl, key)
        elif not isinstance(key, tuple):
            one(sl, key)

    def _enter(self) -> None:
        self.depth += 1
        if self.depth > 60:
            self.depth -= 1
            raise Undecided("recursion depth")

    def iterate(self, v: Any) -> List[Any]:
        if isinstance(v, OneShot):
            items = list(v)
            v.clear()  # a generator / map / zip object yields its items once
            return items
        if isinstance(v, (set, frozenset)) and any(isinstance(x, str) for x in v):
            # str hashes are salted per process: the iteration order of such a set is not reproducible
            self.order_events.append(sorted(map(str, v))[:4])
        if isinstance(v, (list, tuple, range, set, frozenset, str)):
            return list(v)
        if isinstance(v, Obj) and v.resolver is not None:
            return self.iterate(v.resolver(v, "__iter__")())
        if isinstance(v, dict):
            return list(v)
        if v is None or isinstance(v, (bool, int)):
            raise Raised(f"TypeError({type(v).__name__} object is not iterable)")
        raise Undecided("iteration over abstract value")

    def bind(self, t: ast.AST, v: Any, env: Dict[str, Any]) -> None:
        if isinstance(t, ast.Name):
            env[t.id] = v
        elif isinstance(t, (ast.Tuple, ast.List)):
            vs = self.iterate(v)
            stars = [i for i, e in enumerate(t.elts) if isinstance(e, ast.Starred)]
            if len(stars) == 1:
                i = stars[0]
                after = len(t.elts) - i - 1
                if len(vs) < len(t.elts) - 1:
                    raise Raised("ValueError(not enough values to unpack)")
                for a, b in zip(t.elts[:i], vs[:i]):
                    self.bind(a, b, env)
                self.bind(t.elts[i].value, list(vs[i:len(vs) - after]), env)
                for a, b in zip(t.elts[i + 1:], vs[len(vs) - after:] if after else []):
                    self.bind(a, b, env)
                return
            if len(vs) != len(t.elts):
                raise Raised("ValueError(wrong number of values to unpack)")
            for a, b in zip(t.elts, vs):
                self.bind(a, b, env)
        elif isinstance(t, ast.Subscript):
            base = self.eval(t.value, env)
            idx = self.eval(t.slice, env)
            if isinstance(base, list):
                if isinstance(idx, bool) or not isinstance(idx, (int, slice)):
                    raise Undecided("list store with an abstract index")
                if isinstance(idx, int) and not -len(base) <= idx < len(base):
                    raise Raised("IndexError(list assignment index out of range)")
                if self.strict_index and isinstance(idx, int):
                    self._strict(t, t.slice, idx, getattr(base, "axis", None))
                base[idx] = v
            elif isinstance(base, dict):
                try:
                    base[idx] = v
                except TypeError:
                    raise Undecided("dict store with an unhashable key")
            else:
                raise Undecided("store")
        elif isinstance(t, ast.Attribute):
            base = self.eval(t.value, env)
            if isinstance(base, Obj):
                base.attrs[t.attr] = v
                base.stores.append((t.attr, v))
            else:
                raise Undecided("attribute store")
        else:
            raise Undecided("bind target")

    def _match(self, pat: ast.AST, v: Any, env: Dict[str, Any], binds: Dict[str, Any]) -> bool:
        """structural pattern matching for the pattern kinds a library like this uses"""
        if isinstance(pat, ast.MatchValue):
            return self.truth(self.compare(ast.Eq(), v, self.eval(pat.value, env)))
        if isinstance(pat, ast.MatchSingleton):
            return v is pat.value
        if isinstance(pat, ast.MatchOr):
            return any(self._match(q, v, env, binds) for q in pat.patterns)
        if isinstance(pat, ast.MatchAs):
            if pat.pattern is not None and not self._match(pat.pattern, v, env, binds):
                return False
            if pat.name:
                binds[pat.name] = v
            return True
        if isinstance(pat, ast.MatchSequence):
            if not isinstance(v, (list, tuple)):
                return False
            stars = [i for i, q in enumerate(pat.patterns) if isinstance(q, ast.MatchStar)]
            if not stars:
                return len(v) == len(pat.patterns) and all(self._match(q, x, env, binds) for q, x in zip(pat.patterns, v))
            i = stars[0]
            after = len(pat.patterns) - i - 1
            if len(v) < len(pat.patterns) - 1:
                return False
            if not all(self._match(q, x, env, binds) for q, x in zip(pat.patterns[:i], v[:i])):
                return False
            if after and not all(self._match(q, x, env, binds) for q, x in zip(pat.patterns[i + 1:], v[len(v) - after:])):
                return False
            if pat.patterns[i].name:
                binds[pat.patterns[i].name] = list(v[i:len(v) - after])
            return True
        if isinstance(pat, ast.MatchClass) and not pat.patterns and not pat.kwd_patterns:
            return self.isinstance(v, pat.cls, env)
        raise Undecided(f"match pattern {type(pat).__name__}")

    def truth(self, v: Any) -> bool:
        if isinstance(v, (bool, int, list, tuple, str, dict, set, _re.Match)) or v is None:
            return bool(v)
        m = self._obj_method(v, "__bool__")
        if m is not None:
            return self.truth(m())
        if isinstance(v, Obj) and v.resolver is not None and self._obj_method(v, "__len__") is not None:
            return self.truth(self._obj_method(v, "__len__")())
        raise Undecided(f"truth value of {v!r}")

    _BIN = {ast.Add: "add", ast.Sub: "sub", ast.BitAnd: "and", ast.BitOr: "or", ast.BitXor: "xor", ast.Mult: "mul"}
    _CMP = {ast.Eq: ("__eq__", "__eq__"), ast.NotEq: ("__ne__", "__ne__"), ast.Lt: ("__lt__", "__gt__"),
            ast.LtE: ("__le__", "__ge__"), ast.Gt: ("__gt__", "__lt__"), ast.GtE: ("__ge__", "__le__")}

    def _obj_method(self, o: Any, name: str) -> Any:
        if isinstance(o, Obj) and o.resolver is not None:
            try:
                return o.resolver(o, name)
            except Undecided:
                return None
        return None

    def _dispatch_bin(self, op: ast.operator, a: Any, b: Any) -> Any:
        nm = self._BIN.get(type(op))
        if nm is None:
            return _NODISPATCH
        for obj, other, meth in ((a, b, f"__{nm}__"), (b, a, f"__r{nm}__")):
            f = self._obj_method(obj, meth)
            if f is not None:
                self._enter()
                try:
                    r = f(other)
                finally:
                    self.depth -= 1
                if r is not NOTIMPL:
                    return r
        if isinstance(a, Obj) or isinstance(b, Obj):
            if (isinstance(a, Obj) and a.resolver is not None) or (isinstance(b, Obj) and b.resolver is not None):
                raise Raised("TypeError(unsupported operand types)")
        return _NODISPATCH

    def binop(self, op: ast.operator, a: Any, b: Any, n: ast.AST) -> Any:
        r = self._binop_raw(op, a, b, n)
        if isinstance(r, int) and not isinstance(r, bool) and (isinstance(a, KInt) or isinstance(b, KInt)):
            ka, kb = kind_of(a), kind_of(b)
            role = None
            if isinstance(op, (ast.Add, ast.Sub)):
                ks = {ka, kb} - {None}
                k = ks.pop() if len(ks) == 1 else None
                if k is not None:
                    roles = {getattr(x, "role", None) for x in (a, b) if kind_of(x) == k}
                    role = "idx" if "idx" in roles else ("ext" if roles == {"ext"} and not (ka and kb) else None)
            else:
                k = ka if kb is None and not isinstance(b, KInt) else (kb if ka is None and not isinstance(a, KInt) else None)
            return KInt(int(r), k, role)
        return r

    def _binop_raw(self, op: ast.operator, a: Any, b: Any, n: ast.AST) -> Any:
        if isinstance(a, Obj) or isinstance(b, Obj):
            r = self._dispatch_bin(op, a, b)
            if r is not _NODISPATCH:
                return r
        if isinstance(op, (ast.Add, ast.Sub)) and (isinstance(a, Lin) or isinstance(b, Lin)):
            return a + b if isinstance(op, ast.Add) else (Lin.of(a) - b)
        if isinstance(op, ast.Add) and isinstance(a, (list, tuple, str)) and type(a) is type(b):
            return a + b
        if isinstance(a, (set, frozenset)) and isinstance(b, (set, frozenset)) and isinstance(op, (ast.Sub, ast.BitOr, ast.BitAnd, ast.BitXor)):
            return {ast.Sub: lambda: a - b, ast.BitOr: lambda: a | b, ast.BitAnd: lambda: a & b, ast.BitXor: lambda: a ^ b}[type(op)]()
        if isinstance(op, ast.Add) and isinstance(a, list) and isinstance(b, list):
            return list(a) + list(b)  # a kind-qualified list joined with a plain one: the qualifier is dropped
        if isinstance(op, ast.Add) and isinstance(a, (list, tuple, str)) and isinstance(b, (list, tuple, str)) and not (
                isinstance(a, type(b)) or isinstance(b, type(a))):
            raise Raised(f"TypeError(can only concatenate {type(a).__name__} (not \"{type(b).__name__}\") to {type(a).__name__})")
        num = lambda x: isinstance(x, int) and not isinstance(x, bool)  # noqa: E731
        if (isinstance(a, float) or isinstance(b, float)) and all(isinstance(x, (int, float)) and not isinstance(x, bool) for x in (a, b)):
            try:
                return {ast.Add: lambda: a + b, ast.Sub: lambda: a - b, ast.Mult: lambda: a * b, ast.Div: lambda: a / b}[type(op)]()
            except KeyError:
                raise Undecided("float operation")
            except ZeroDivisionError:
                raise Raised("ZeroDivisionError(float division by zero)")
        if num(a) and num(b):
            if isinstance(op, ast.BitXor):
                return a ^ b
            if isinstance(op, ast.BitAnd):
                return a & b
            if isinstance(op, ast.BitOr):
                return a | b
            if isinstance(op, ast.RShift) and b >= 0:
                return a >> b
            if isinstance(op, ast.Add):
                return a + b
            if isinstance(op, ast.Sub):
                return a - b
            if isinstance(op, ast.Mult):
                return a * b
            if isinstance(op, ast.Div):
                if b == 0:
                    raise Raised("ZeroDivisionError(division by zero)")
                return a / b
            if isinstance(op, (ast.FloorDiv, ast.Mod)) and b == 0:
                raise Raised("ZeroDivisionError(integer division or modulo by zero)")
            if isinstance(op, ast.FloorDiv) and b != 0:
                return a // b
            if isinstance(op, ast.Mod) and b != 0:
                return a % b
            if isinstance(op, ast.LShift) and b >= 0:
                return a << b
            if isinstance(op, ast.Pow) and b >= 0:
                return a**b
        for name, cls in (("__and__", ast.BitAnd), ("__or__", ast.BitOr), ("__xor__", ast.BitXor)):
            if isinstance(op, cls):
                if isinstance(a, bool) and isinstance(b, bool):
                    return {"__and__": a and b, "__or__": a or b, "__xor__": a != b}[name]
                f = self.funcs.get(name)
                if f:
                    return f(a, b)
        if isinstance(op, ast.Mult) and isinstance(a, list) and num(b):
            return a * b
        if isinstance(op, ast.Mult) and isinstance(a, (str, tuple)) and num(b):
            return a * b
        plain_int = lambda x: isinstance(x, int) and not isinstance(x, KInt)  # noqa: E731  (bool included: True + True == 2)
        if isinstance(op, (ast.Add, ast.Sub, ast.Mult)) and plain_int(a) and plain_int(b) and (isinstance(a, bool) or isinstance(b, bool)):
            return {ast.Add: int(a) + int(b), ast.Sub: int(a) - int(b), ast.Mult: int(a) * int(b)}[type(op)]
        if isinstance(op, ast.Mod) and isinstance(a, str) and _plain(b):
            try:
                return a % b
            except (TypeError, ValueError) as ex:
                raise Raised(f"{type(ex).__name__}({ex})")
        if (a is None or b is None) and isinstance(op, (ast.Add, ast.Sub, ast.Mult, ast.FloorDiv, ast.Mod, ast.Div)) and (
                _plain(a) and _plain(b)) and not (isinstance(op, ast.Mod) and isinstance(a, str)):
            raise Raised("TypeError(unsupported operand type(s) for an arithmetic operator: NoneType)")
        raise Undecided(f"binary operation {norm(n)}")

    def compare(self, op: ast.cmpop, a: Any, b: Any) -> Any:
        if type(op) in self._CMP and (
            (isinstance(a, Obj) and a.resolver is not None) or (isinstance(b, Obj) and b.resolver is not None)
        ):
            fwd, rev = self._CMP[type(op)]
            for obj, other, meth in ((a, b, fwd), (b, a, rev)):
                f = self._obj_method(obj, meth)
                if f is not None:
                    self._enter()
                    try:
                        r = f(other)
                    finally:
                        self.depth -= 1
                    if r is not NOTIMPL:
                        return r
            if isinstance(op, (ast.Eq, ast.NotEq)):
                r = a is b
                return r if isinstance(op, ast.Eq) else not r
            raise Raised("TypeError(unsupported comparison)")
        if isinstance(op, (ast.Is, ast.IsNot)):
            r = a is b or (isinstance(a, Tag) and a == b) or (a is None and b is None)
            if isinstance(a, (bool,)) and isinstance(b, bool):
                r = a is b
            return r if isinstance(op, ast.Is) else not r
        if isinstance(op, (ast.In, ast.NotIn)):
            if isinstance(b, OneShot):
                # `x in generator` advances it: up to and including the first match, or to the end
                hit = next((k for k, y in enumerate(b) if (y == a) is True), None)
                del b[: (hit + 1) if hit is not None else len(b)]
                return (hit is not None) if isinstance(op, ast.In) else (hit is None)
            if isinstance(b, (list, tuple, set, dict, str, range)):
                r = any((x == a) is True for x in (b if not isinstance(b, dict) else b.keys())) if not isinstance(b, str) else (a in b)
                return r if isinstance(op, ast.In) else not r
            raise Undecided("membership in abstract value")
        if isinstance(op, (ast.Eq, ast.NotEq)):
            if isinstance(a, Lin) or isinstance(b, Lin):
                f = self.funcs.get("__lin_eq__")
                if f is None:
                    raise Undecided("equality on a symbolic integer")
                r = f(a, b)
            elif "__compare__" in self.funcs and (isinstance(a, (Obj, Tag)) or isinstance(b, (Obj, Tag))) and not (
                isinstance(a, Tag) and isinstance(b, Tag)
            ):
                return self.funcs["__compare__"](op, a, b)
            else:
                r = a == b
            return r if isinstance(op, ast.Eq) else not r
        num = lambda x: isinstance(x, int) and not isinstance(x, bool)  # noqa: E731
        if not (num(a) and num(b)) and "__compare__" in self.funcs:
            return self.funcs["__compare__"](op, a, b)
        if isinstance(a, str) and isinstance(b, str):
            return {ast.Lt: a < b, ast.LtE: a <= b, ast.Gt: a > b, ast.GtE: a >= b}[type(op)]
        _cmp_guard(a, b)
        isn = lambda x: isinstance(x, (int, float)) and not isinstance(x, bool)  # noqa: E731
        if isn(a) and isn(b) and (isinstance(a, float) or isinstance(b, float)):
            return {ast.Lt: a < b, ast.LtE: a <= b, ast.Gt: a > b, ast.GtE: a >= b}[type(op)]
        if num(a) and num(b):
            if isinstance(op, ast.Lt):
                return a < b
            if isinstance(op, ast.LtE):
                return a <= b
            if isinstance(op, ast.Gt):
                return a > b
            if isinstance(op, ast.GtE):
                return a >= b
        if isinstance(a, tuple) and isinstance(b, tuple):
            return {ast.Lt: a < b, ast.LtE: a <= b, ast.Gt: a > b, ast.GtE: a >= b}[type(op)]
        if isinstance(a, list) and isinstance(b, list) and _plain(a) and _plain(b) and isinstance(op, (ast.Lt, ast.LtE, ast.Gt, ast.GtE)):
            try:
                return {ast.Lt: lambda: a < b, ast.LtE: lambda: a <= b, ast.Gt: lambda: a > b, ast.GtE: lambda: a >= b}[type(op)]()
            except TypeError as ex:
                raise Raised(f"TypeError({ex})")
        if isinstance(op, (ast.Lt, ast.LtE, ast.Gt, ast.GtE)) and (a is None or b is None) and (
                a is None or isinstance(a, (int, str, list, tuple))) and (b is None or isinstance(b, (int, str, list, tuple))):
            raise Raised("TypeError(ordering comparison with None)")
        raise Undecided(f"comparison of {a!r} and {b!r}")

    def call(self, n: ast.Call, env: Dict[str, Any]) -> Any:
        d = dotted(n.func)
        if d == "isinstance" and len(n.args) == 2:
            return self.isinstance(self.eval(n.args[0], env), n.args[1], env)
        if d in ("cast", "typing.cast") and len(n.args) == 2:
            return self.eval(n.args[1], env)
        if d == "len" and len(n.args) == 1:
            v = self.eval(n.args[0], env)
            if isinstance(v, Obj) and v.resolver is not None:
                return v.resolver(v, "__len__")()
            return _len(v)
        if d == "set" and len(n.args) <= 1 and not n.keywords:
            return set(self.iterate(self.eval(n.args[0], env))) if n.args else set()
        if d in ("list", "tuple", "iter") and len(n.args) == 1 and not n.keywords:
            v = self.eval(n.args[0], env)
            if d == "iter" and isinstance(v, OneShot):
                return v  # iter(iterator) is the iterator itself
            vs = self.iterate(v)
            return tuple(vs) if d == "tuple" else (OneShot(vs) if d == "iter" else list(vs))
        if d == "super" and "__super__" in self.funcs:
            return self.funcs["__super__"](env.get("__self__"), env.get("__owner__"))
        f = None
        if d is not None and d in env and callable(env[d]):
            f = env[d]
        elif d is not None and d in self.funcs:
            f = self.funcs[d]
        else:
            try:
                f = self.eval(n.func, env)
            except Undecided:
                f = None
        if not callable(f):
            raise Undecided(f"call of {norm(n.func)}")
        args: List[Any] = []
        for a in n.args:
            if isinstance(a, ast.Starred):
                args.extend(self.iterate(self.eval(a.value, env)))
            else:
                args.append(self.eval(a, env))
        kwargs = {k.arg: self.eval(k.value, env) for k in n.keywords if k.arg}
        for k in n.keywords:
            if k.arg is None:
                extra = self.eval(k.value, env)
                if not isinstance(extra, dict):
                    raise Undecided("** of abstract value")
                kwargs.update(extra)
        if d == "sum" and f is self.funcs.get(d) and args:
            items = self.iterate(args[0])  # once: a generator argument is exhausted by this
            args = [items] + list(args[1:])
            if any(isinstance(x, Obj) for x in items):
                acc = args[1] if len(args) > 1 else 0
                for x in items:
                    acc = self.binop(ast.Add(), acc, x, n)
                return acc
        if d == "sorted" and f is self.funcs.get(d) and args and isinstance(args[0], (set, frozenset)):
            return sorted(args[0], **kwargs)
        if d in _ITER_BUILTINS and f is self.funcs.get(d):
            args = [self.iterate(a) if isinstance(a, Obj) and a.resolver is not None and "leaf" not in a.attrs else a for a in args]
        r = f(*args, **kwargs)
        if d in _CONSUMERS and f is self.funcs.get(d):
            # a generator / map / zip object handed to a consuming builtin is exhausted afterwards
            for a in args:
                if isinstance(a, OneShot):
                    a.clear()
        return r

    def _class_names(self, cls: ast.AST, env: Dict[str, Any]) -> List[str]:
        """the class names an isinstance() second argument stands for; a name bound to a tuple of classes (a module-level
        `_TYPES = (A, B)`) is expanded, an unevaluated constant is undecided rather than 'no class'"""
        if isinstance(cls, ast.Tuple):
            out: List[str] = []
            for e in cls.elts:
                out += self._class_names(e, env)
            return out
        if isinstance(cls, ast.BinOp) and isinstance(cls.op, ast.Add):
            return self._class_names(cls.left, env) + self._class_names(cls.right, env)
        if isinstance(cls, ast.Name):
            val = env.get(cls.id, None)
            if isinstance(val, (tuple, list)):
                return [self._class_name_of(x) for x in val]
            if isinstance(val, Tag) and val.name == cls.id and (cls.id.isupper() or cls.id.startswith("_")) and cls.id.upper() == cls.id:
                raise Undecided(f"isinstance against the unevaluated constant {cls.id}")
        return [norm(cls)]

    def _class_name_of(self, x: Any) -> str:
        if callable(x) and hasattr(x, "class_name"):
            return x.class_name
        if isinstance(x, Tag):
            return x.name.split(".")[-1]
        for nm in ("int", "bool", "str", "list", "tuple", "float", "slice", "dict", "set"):
            if self.funcs.get(nm) is x:
                return nm
        raise Undecided("isinstance against an abstract class reference")

    def isinstance(self, v: Any, cls: ast.AST, env: Dict[str, Any]) -> bool:
        names = self._class_names(cls, env)
        for nm in names:
            nm = nm.split(".")[-1]
            if isinstance(v, Obj):
                if nm in v.classes:
                    return True
            elif nm == "bool":
                if isinstance(v, bool):
                    return True
            elif nm == "int":
                if isinstance(v, (int, Lin)):
                    return True
            elif nm == "list":
                if isinstance(v, list):
                    return True
            elif nm == "tuple":
                if isinstance(v, tuple):
                    return True
            elif nm == "str":
                if isinstance(v, str):
                    return True
            elif nm == "slice":
                if isinstance(v, slice):
                    return True
            elif nm in ("Iterable", "Sequence"):
                if isinstance(v, (list, tuple, str)) or (isinstance(v, Obj) and v.resolver is not None and nm == "Iterable"):
                    return True
        return False

    # -- statements --------------------------------------------------------------------------
    def run(self, body: List[ast.stmt], env: Dict[str, Any]) -> Any:
        """Execute a straight-line body; returns the returned value (None if it falls off)."""
        try:
            self.block(body, env)
        except Return as r:
            return r.value
        return FELL

    def block(self, body: List[ast.stmt], env: Dict[str, Any]) -> None:
        for st in body:
            self.stmt(st, env)

    def stmt(self, st: ast.stmt, env: Dict[str, Any]) -> None:
        self.steps += 1
        if self.steps > self.max_steps:
            raise Undecided("evaluation budget exceeded")
        if isinstance(st, ast.Assign):
            v = self.eval(st.value, env)
            for t in st.targets:
                self.bind(t, v, env)
        elif isinstance(st, ast.AnnAssign):
            if st.value is not None:
                self.bind(st.target, self.eval(st.value, env), env)
        elif isinstance(st, ast.AugAssign):
            cur = self.eval(st.target, env)
            v = self.eval(st.value, env)
            if isinstance(cur, list) and isinstance(st.op, ast.Add):
                cur.extend(self.iterate(v))  # in-place, like list.__iadd__
                return
            self.bind(st.target, self.binop(st.op, cur, v, st), env)
        elif isinstance(st, ast.Return):
            raise Return(None if st.value is None else self.eval(st.value, env))
        elif isinstance(st, ast.If):
            self.block(st.body if self.truth(self.eval(st.test, env)) else st.orelse, env)
        elif isinstance(st, ast.For):
            broke = False
            for item in self.iterate(self.eval(st.iter, env)):
                self.bind(st.target, item, env)
                try:
                    self.block(st.body, env)
                except _Break:
                    broke = True
                    break
                except _Continue:
                    continue
            if not broke:
                self.block(st.orelse, env)
        elif isinstance(st, ast.While):
            n = 0
            while self.truth(self.eval(st.test, env)):
                n += 1
                if n > self.max_loop:
                    raise Undecided("loop bound")
                try:
                    self.block(st.body, env)
                except _Break:
                    break
                except _Continue:
                    continue
            else:
                self.block(st.orelse, env)  # the loop condition became false (no break)
        elif isinstance(st, ast.Expr):
            if isinstance(st.value, ast.Constant):
                return
            if isinstance(st.value, ast.Yield):
                env["__yields__"].append(None if st.value.value is None else self.eval(st.value.value, env))
                return
            if isinstance(st.value, ast.YieldFrom):
                env["__yields__"].extend(self.iterate(self.eval(st.value.value, env)))
                return
            if isinstance(st.value, ast.Call) and isinstance(st.value.func, ast.Attribute):
                m = st.value.func.attr
                if m in ("append", "extend"):
                    base = self.eval(st.value.func.value, env)
                    if isinstance(base, list):
                        arg = self.eval(st.value.args[0], env)
                        if m == "append":
                            base.append(arg)
                        else:
                            base.extend(self.iterate(arg))
                        return
            self.eval(st.value, env)
        elif isinstance(st, ast.Raise):
            raise Raised(norm(st.exc) if st.exc else "")
        elif isinstance(st, ast.Pass):
            return
        elif isinstance(st, ast.Break):
            raise _Break()
        elif isinstance(st, ast.Continue):
            raise _Continue()
        elif isinstance(st, ast.Assert):
            if not self.truth(self.eval(st.test, env)):
                raise Raised("AssertionError")
        elif isinstance(st, (ast.Import, ast.ImportFrom)):
            hook = self.funcs.get("__import__")
            if hook is not None:
                names = [a.name for a in st.names] if isinstance(st, ast.Import) else [st.module or ""]
                for nm in names:
                    hook(nm, env)
            if isinstance(st, ast.ImportFrom):
                # `from .m import f as g`: the world already holds f under its own name; bind the alias
                for a in st.names:
                    if a.asname and a.asname != a.name:
                        if a.name in env:
                            env[a.asname] = env[a.name]
                        elif a.name in self.funcs:
                            env[a.asname] = self.funcs[a.name]
            return
        elif isinstance(st, ast.Global):
            env.setdefault("__globals__", set()).update(st.names)
            return
        elif isinstance(st, ast.Nonlocal):
            env.setdefault("__globals__", set()).update(st.names)  # written back to the defining scope when the function ends
            return
        elif isinstance(st, ast.With):
            for item in st.items:
                v = self.eval(item.context_expr, env)
                if item.optional_vars is not None:
                    self.bind(item.optional_vars, v, env)
            self.block(st.body, env)
        elif isinstance(st, ast.Delete):
            for t in st.targets:
                if isinstance(t, ast.Name):
                    env.pop(t.id, None)
                elif isinstance(t, ast.Subscript):
                    base = self.eval(t.value, env)
                    idx = self.eval(t.slice, env)
                    try:
                        del base[idx]
                    except (KeyError, IndexError, TypeError):
                        raise Raised("KeyError(del)")
                else:
                    raise Undecided("del target")
        elif isinstance(st, ast.FunctionDef):
            env[st.name] = _Closure2(st, self, env)
        elif isinstance(st, ast.Match):
            subj = self.eval(st.subject, env)
            for case in st.cases:
                binds: Dict[str, Any] = {}
                if self._match(case.pattern, subj, env, binds):
                    env2 = env
                    env2.update(binds)
                    if case.guard is not None and not self.truth(self.eval(case.guard, env2)):
                        continue
                    self.block(case.body, env2)
                    break
        elif isinstance(st, ast.Try):
            try:
                try:
                    self.block(st.body, env)
                except (Raised, IndexOutOfRange) as ex:
                    # an out-of-range subscript is Python's IndexError to a handler
                    kind = "IndexError" if isinstance(ex, IndexOutOfRange) else ex.what.split("(")[0].split(".")[-1]
                    kinds = {kind, "Exception", "BaseException"}
                    todo = [kind]
                    while todo:
                        for parent in _EXC_PARENTS.get(todo.pop(), ()):
                            if parent not in kinds:
                                kinds.add(parent)
                                todo.append(parent)
                    for h in st.handlers:
                        if h.type is None:
                            names = ["*"]
                        elif isinstance(h.type, ast.Tuple):
                            names = [norm(e).split(".")[-1] for e in h.type.elts]
                        else:
                            names = [norm(h.type).split(".")[-1]]
                        if "*" in names or kinds & set(names):
                            if h.name:
                                env[h.name] = Tag(kind)
                            self.block(h.body, env)
                            break
                    else:
                        raise
                else:
                    self.block(st.orelse, env)
            finally:
                # runs on every way out of the statement: normal completion, return / break / continue, a handled or unhandled exception
                self.block(st.finalbody, env)
        else:
            raise Undecided(f"statement form {type(st).__name__}")


class _Break(Exception):
    pass


class _Continue(Exception):
    pass


class Raised(Exception):
    def __init__(self, what: str):
        super().__init__(what)
        self.what = what


class IndexOutOfRange(Exception):
    def __init__(self, text: str, idx: int, n: int):
        super().__init__(f"{text}: index {idx} for length {n}")


FELL = Tag("FELL-OFF-END")

_EXC_PARENTS = {"AttributeError": (), "IndexError": ("LookupError",), "KeyError": ("LookupError",), "ZeroDivisionError": ("ArithmeticError",),
                "OverflowError": ("ArithmeticError",), "UnicodeError": ("ValueError",), "UnicodeDecodeError": ("UnicodeError",),
                "UnicodeEncodeError": ("UnicodeError",), "NotImplementedError": ("RuntimeError",), "RecursionError": ("RuntimeError",),
                "ModuleNotFoundError": ("ImportError",), "FileNotFoundError": ("OSError",), "PermissionError": ("OSError",),
                "JSONDecodeError": ("ValueError",), "StopIteration": (), "Z3Exception": ()}

_CONSUMERS = {"list", "tuple", "set", "frozenset", "sorted", "sum", "min", "max", "any", "all", "enumerate", "zip", "map", "filter", "dict",
              "itertools.chain", "itertools.chain.from_iterable", "chain.from_iterable", "itertools.product", "itertools.combinations", "itertools.permutations", "itertools.pairwise", "pairwise", "iter", "math.prod", "prod", "functools.reduce", "reduce", "deque", "collections.deque", "Counter", "collections.Counter"}
_ITER_BUILTINS = {"enumerate", "zip", "map", "sum", "all", "any", "reversed", "min", "max", "sorted", "set", "itertools.chain", "itertools.chain.from_iterable", "chain.from_iterable"}

_SAFE_METHODS = {
    "str": ("format", "join", "split", "strip", "startswith", "endswith", "lower", "upper", "isdigit", "index",
            "find", "replace", "encode", "rstrip", "lstrip", "splitlines", "isalpha", "isalnum", "islower", "isupper", "isspace",
            "isdecimal", "isnumeric", "isascii", "isidentifier", "rfind", "rindex", "count", "partition", "rpartition", "rsplit", "zfill",
            "rjust", "ljust", "center", "title", "capitalize", "swapcase", "casefold", "removeprefix", "removesuffix", "translate",
            "expandtabs"),
    "list": ("append", "extend", "index", "count", "copy", "pop", "insert", "reverse", "sort", "remove"),
    "_Deque": ("append", "extend", "popleft", "appendleft", "pop"),
    "tuple": ("index", "count"),
    "dict": ("get", "items", "keys", "values", "setdefault", "copy", "pop", "update", "clear"),
    "set": ("add", "copy", "discard", "remove", "update", "union", "intersection", "difference", "issubset", "issuperset", "isdisjoint",
            "clear", "symmetric_difference"),
}


def _plain(x: Any) -> bool:
    if isinstance(x, (str, int, bool, type(None))):
        return True
    if isinstance(x, (list, tuple)):
        return all(_plain(y) for y in x)
    return False


def _bound(base: Any, name: str) -> Callable[..., Any]:
    def call(*args: Any, **kwargs: Any) -> Any:
        if isinstance(base, str):
            if not all(_plain(a) for a in args) or not all(_plain(v) for v in kwargs.values()):
                raise Undecided(f"str.{name} on abstract argument")
            if name == "join":
                args = (list(args[0]),)
        r = getattr(base, name)(*args, **kwargs)
        if name in ("join", "extend", "update", "__iadd__"):
            for a in args:
                if isinstance(a, OneShot):
                    a.clear()  # consumed by the method
        if name in ("items", "keys", "values"):
            return list(r)
        return r

    return call


def _getattr(o: Any, name: Any, *default: Any) -> Any:
    if not isinstance(name, str):
        raise Undecided("getattr with an abstract name")
    if isinstance(o, Obj):
        if name in o.attrs:
            return o.attrs[name]
        if o.resolver is not None:
            try:
                return o.resolver(o, name)
            except Undecided:
                if default:
                    return default[0]
                raise
        if default:
            return default[0]
        raise Undecided(f"unknown attribute {name}")
    if isinstance(o, Tag):
        return Tag(o.name + "." + name)
    raise Undecided("getattr on abstract value")


def _hasattr(o: Any, name: Any) -> bool:
    if not isinstance(name, str):
        raise Undecided("hasattr with an abstract name")
    if isinstance(o, (list, tuple, set, frozenset, dict, range, str)):
        return hasattr(o, name)
    if o is None or isinstance(o, (bool, int, float)):
        return hasattr(o, name)
    if isinstance(o, Obj):
        if name in o.attrs:
            return True
        if o.resolver is not None:
            try:
                o.resolver(o, name)
                return True
            except Undecided:
                return False
        return False
    raise Undecided("hasattr on abstract value")


def _len(x: Any) -> int:
    if isinstance(x, (list, tuple, str, dict, range, set, frozenset)):
        return len(x)
    raise Undecided("len of abstract value")


def _strfn(f: Callable[..., Any]) -> Callable[..., Any]:
    def g(*a: Any) -> Any:
        if not all(isinstance(x, (str, int)) for x in a):
            raise Undecided("string function on abstract value")
        try:
            return f(*a)
        except (ValueError, TypeError, OverflowError) as ex:
            raise Raised(f"{type(ex).__name__}({ex})")

    return g


def _unk(x: Any) -> Any:
    """plain data with the analyser's int subclasses turned back into ints (for str()/repr())"""
    if isinstance(x, bool) or x is None or isinstance(x, (str, float)):
        return x
    if isinstance(x, int):
        return int(x)
    if isinstance(x, list):
        return [_unk(y) for y in x]
    if isinstance(x, tuple):
        return tuple(_unk(y) for y in x)
    return x


def _int(x: Any, *base: Any) -> int:
    if isinstance(x, (int, bool)) and not base:
        return int(x)
    if isinstance(x, float) and not base:
        if x != x or x in (float("inf"), float("-inf")):
            raise Raised("ValueError(cannot convert float NaN or infinity to integer)")
        return int(x)
    if isinstance(x, str) and all(isinstance(b, int) for b in base):
        try:
            return int(x, *base)
        except ValueError:
            raise Raised("ValueError(invalid literal for int())")
    raise Undecided("int()")


def _sum(xs: Any, start: Any = 0) -> Any:
    acc = start
    for x in xs:
        if isinstance(acc, list):
            acc = acc + x
        elif isinstance(acc, Lin) or isinstance(x, Lin):
            acc = Lin.of(acc) + x
        else:
            acc = acc + x
    return acc


_CLASS_TAGS: Dict[str, "Tag"] = {}


def _type(x: Any) -> Any:
    """type(x) for plain values: the very object the name `int` / `bool` / ... evaluates to here, so `type(x) is int` is exact"""
    for t, nm in ((bool, "bool"), (int, "int"), (float, "float"), (str, "str"), (list, "list"), (tuple, "tuple"), (dict, "dict"), (set, "set")):
        if isinstance(x, t):
            return BUILTINS[nm]
    if x is None:
        return _CLASS_TAGS.setdefault("NoneType", Tag("NoneType"))
    if isinstance(x, Obj) and isinstance(x.attrs.get("__class__"), str):
        # an instance of a repository class: one token per class (never identical to a builtin type)
        return _CLASS_TAGS.setdefault(x.attrs["__class__"], Tag("class " + x.attrs["__class__"]))
    raise Undecided("type() of an abstract value")


def _prod(xs: Any, start: Any = 1) -> Any:
    acc = start
    for x in xs:
        if isinstance(x, bool) or not isinstance(x, int) or not isinstance(acc, int):
            raise Undecided("math.prod of abstract values")
        k = kind_of(x) if kind_of(acc) is None and acc == 1 else None
        acc = acc * x
        if k is not None:
            acc = KInt(acc, k)
    return acc


def _base_repr(v: Any, base: Any) -> str:
    """numpy.base_repr for non-negative integers (digits 0-9 then upper-case letters)"""
    if not (isinstance(v, int) and isinstance(base, int)) or isinstance(v, bool) or not 2 <= base <= 36:
        raise Undecided("base_repr on an abstract value")
    digits = "0123456789ABCDEFGHIJKLMNOPQRSTUVWXYZ"
    if v == 0:
        return "0"
    neg, v, out = v < 0, abs(int(v)), ""
    while v:
        out = digits[v % base] + out
        v //= base
    return ("-" if neg else "") + out


_NO_DEFAULT = object()


def _next(it: Any, default: Any = _NO_DEFAULT) -> Any:
    """next() on an iterator object: takes its first remaining item"""
    if not isinstance(it, OneShot):
        if isinstance(it, (list, tuple, str, dict, set, range)):
            raise Raised(f"TypeError('{type(it).__name__}' object is not an iterator)")
        raise Undecided("next() of an abstract value")
    if len(it):
        return it.pop(0)
    if default is _NO_DEFAULT:
        raise Raised("StopIteration()")
    return default


def _zip(xs: Any, strict: bool = False) -> List[Any]:
    ls = [list(x) for x in xs]
    if strict and len({len(l) for l in ls}) > 1:
        raise Raised("ValueError(zip() arguments have different lengths)")
    return [tuple(t) for t in zip(*ls)]


def _filter(f: Any, xs: Any) -> List[Any]:
    out = []
    for x in xs:
        keep = f(x) if f is not None else x
        if not isinstance(keep, (bool, int, type(None), str, list, tuple)):
            raise Undecided("filter with an abstract predicate value")
        if keep:
            out.append(x)
    return out


NOTIMPL = Tag("NotImplemented")
_NODISPATCH = Tag("no-dispatch")

BUILTINS: Dict[str, Callable[..., Any]] = {
    "NotImplemented": NOTIMPL,  # type: ignore[dict-item]
    "len": _len,
    "range": _krange,
    "list": lambda x=(): list(x),
    "tuple": lambda x=(): tuple(x),
    "map": lambda f, *xs: OneShot([f(*t) for t in zip(*xs)]),
    "zip": lambda *xs, strict=False: OneShot(_zip(xs, strict)),
    "filter": lambda f, xs: OneShot(_filter(f, xs)),
    "enumerate": lambda xs, start=0: OneShot([(i, x) for i, x in enumerate(xs, start)]),
    "reversed": lambda xs: OneShot(reversed(xs)),
    "sum": _sum,
    "min": _kminmax(min),
    "max": _kminmax(max),
    "sorted": lambda xs, **k: sorted(xs, **k),
    "all": lambda xs: all(xs),
    "any": lambda xs: any(xs),
    "int": lambda x, *b: _int(x, *b),
    "bool": lambda x=False: bool(x) if isinstance(x, (int, bool, str, list, tuple, dict, set, frozenset, float, type(None))) else
    (_ for _ in ()).throw(Undecided("bool()")),
    "str": lambda x="": (str(bool(x)) if isinstance(x, bool) else str(int(x)) if isinstance(x, int) else x) if isinstance(x, (int, str)) else
    (str(_unk(x)) if x is None or isinstance(x, float) or (isinstance(x, (list, tuple)) and _plain(x)) else (_ for _ in ()).throw(Undecided("str()"))),
    "repr": lambda x: repr(_unk(x)) if (_plain(x) or isinstance(x, float)) else (_ for _ in ()).throw(Undecided("repr()")),
    "round": lambda x, *nd: round(x, *nd) if isinstance(x, (int, float)) and not isinstance(x, bool) and all(isinstance(k, int) for k in nd) else
    (_ for _ in ()).throw(Undecided("round()")),
    "math.ceil": lambda x: __import__("math").ceil(x) if isinstance(x, (int, float)) and not isinstance(x, bool) else (_ for _ in ()).throw(Undecided("math.ceil")),
    "math.floor": lambda x: __import__("math").floor(x) if isinstance(x, (int, float)) and not isinstance(x, bool) else (_ for _ in ()).throw(Undecided("math.floor")),
    "math.isqrt": lambda x: __import__("math").isqrt(x) if isinstance(x, int) and not isinstance(x, bool) and x >= 0 else (_ for _ in ()).throw(Undecided("math.isqrt")),
    "float": lambda x=0.0: float(x) if isinstance(x, (int, float)) and not isinstance(x, bool) else (_strfn(float)(x) if isinstance(x, str) else (_ for _ in ()).throw(Undecided("float()"))),
    "dict": lambda *a, **k: dict(*a, **k),
    "set": lambda *a: set(*a),
    "slice": lambda *a: slice(*a),
    "re.compile": _strfn(_re.compile),
    "hex": _strfn(hex),
    "bin": _strfn(bin),
    "oct": _strfn(oct),
    "np.base_repr": lambda v, base=2: _base_repr(v, base),
    "numpy.base_repr": lambda v, base=2: _base_repr(v, base),
    "ord": _strfn(ord),
    "chr": _strfn(chr),
    "abs": abs,
    "float": lambda x: float(x) if isinstance(x, (int, float)) and not isinstance(x, bool) else (_ for _ in ()).throw(Undecided("float()")),
    "math.exp": lambda x: __import__("math").exp(x) if isinstance(x, (int, float)) else (_ for _ in ()).throw(Undecided("exp")),
    "math.prod": lambda xs, start=1: _prod(xs, start),
    "prod": lambda xs, start=1: _prod(xs, start),
    "defaultdict": lambda *a, **k: __import__("collections").defaultdict(*a, **k),
    "collections.defaultdict": lambda *a, **k: __import__("collections").defaultdict(*a, **k),
    "print": lambda *a, **k: None,
    "deque": lambda *a: _Deque(*a),
    "collections.deque": lambda *a: _Deque(*a),
    "deepcopy": lambda x: __import__("copy").deepcopy(x) if _plain(x) or isinstance(x, (list, tuple, dict)) else (_ for _ in ()).throw(Undecided("deepcopy")),
    "copy.deepcopy": lambda x: __import__("copy").deepcopy(x),
    "copy.copy": lambda x: __import__("copy").copy(x),
    "iter": lambda x: x if isinstance(x, OneShot) else OneShot(x),
    "next": lambda it, *default: _next(it, *default),
    "itertools.chain": lambda *xs: OneShot([y for x in xs for y in x]),
    "itertools.chain.from_iterable": lambda xs: OneShot([y for x in xs for y in x]),
    "chain.from_iterable": lambda xs: OneShot([y for x in xs for y in x]),
    "math.gcd": lambda *a: __import__("math").gcd(*a),
    "itertools.product": lambda *xs, repeat=1: OneShot([tuple(t) for t in itertools.product(*[list(x) for x in xs], repeat=repeat)]),
    "itertools.combinations": lambda xs, r: OneShot([tuple(t) for t in itertools.combinations(list(xs), r)]),
    "itertools.pairwise": lambda xs: OneShot((lambda l: list(zip(l, l[1:])))(list(xs))),
    "pairwise": lambda xs: OneShot((lambda l: list(zip(l, l[1:])))(list(xs))),
    "itertools.permutations": lambda xs, r=None: OneShot([tuple(t) for t in itertools.permutations(list(xs), r)]),
    "itertools.accumulate": lambda xs: (_ for _ in ()).throw(Undecided("itertools.accumulate")),
    "product": lambda *xs, repeat=1: [tuple(t) for t in itertools.product(*[list(x) for x in xs], repeat=repeat)],
    "combinations": lambda xs, r: [tuple(t) for t in itertools.combinations(list(xs), r)],
    "getattr": lambda o, name, *d: _getattr(o, name, *d),
    "string.hexdigits": "0123456789abcdefABCDEF",  # type: ignore[dict-item]
    "string.digits": "0123456789",  # type: ignore[dict-item]
    "string.ascii_lowercase": "abcdefghijklmnopqrstuvwxyz",  # type: ignore[dict-item]
    "string.ascii_uppercase": "ABCDEFGHIJKLMNOPQRSTUVWXYZ",  # type: ignore[dict-item]
    "string.ascii_letters": "abcdefghijklmnopqrstuvwxyzABCDEFGHIJKLMNOPQRSTUVWXYZ",  # type: ignore[dict-item]
    "string.octdigits": "01234567",  # type: ignore[dict-item]
    "urllib.parse.unquote": _strfn(__import__("urllib.parse").parse.unquote),
    "urllib.parse.unquote_plus": _strfn(__import__("urllib.parse").parse.unquote_plus),
    "urllib.parse.quote": _strfn(__import__("urllib.parse").parse.quote),
    "unquote": _strfn(__import__("urllib.parse").parse.unquote),
    "unquote_plus": _strfn(__import__("urllib.parse").parse.unquote_plus),
    "hasattr": lambda o, name: _hasattr(o, name),
    "type": lambda x: _type(x),
    "functools.reduce": lambda f, xs, *init: __import__("functools").reduce(f, list(xs), *init),
    "cast": lambda t, v: v,
    "typing.cast": lambda t, v: v,
}


def bool_assignments(n: int):
    return itertools.product([False, True], repeat=n)
