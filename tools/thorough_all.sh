#!/bin/bash
# tools/thorough_all.sh [ids...] : thorough tier without evidence, summary per property
ids=${@:-$(seq -f "C%02g" 1 20)}
for p in $ids; do ( timeout 3000 ./check $p --tier thorough --no-evidence --out /tmp/th_out > /tmp/th_$p.txt 2>&1; echo "$p exit=$? $(grep -E '^selftest|^ANALYSIS' /tmp/th_$p.txt | cut -c1-400 | tr '\n' '|')" ) & 
  while [ $(jobs -r | wc -l) -ge 4 ]; do sleep 1; done
done; wait
