#!/bin/bash
V=${VERIF:-/verif}
# tools/rf_run.sh <repo-dir> [ids...] : run quick checks against a refactored copy, print non-zero exits
d=$1; shift; ids=${@:-$(seq -f "C%02g" 1 20)}
for p in $ids; do ( timeout 900 $V/check $p --no-evidence --out /tmp/rfout_$$ --repo $d > /tmp/rfout_$$_$p.txt 2>&1; rc=$?; if [ $rc != 0 ]; then echo "== $p exit $rc"; grep -E "^  \[|^ANALYSIS|^UNDECIDED" /tmp/rfout_$$_$p.txt | cut -c1-600 | head -6; fi; rm -f /tmp/rfout_$$_$p.txt ) & done; wait; rm -rf /tmp/rfout_$$
