#!/bin/bash
# tools/battery.sh [outdir] : the full regression battery run from a snapshot of /verif HEAD (committed files), so that edits made in
# /verif meanwhile do not interfere: 20 quick checks on /repo, every seeded change (must exit 1), every refactoring (must stay silent)
out=${1:-/tmp/battery}; rm -rf $out; mkdir -p $out
snap=$(mktemp -d /tmp/vsnap.XXXXXX); git -C /verif archive HEAD | tar -x -C $snap
export VERIF=$snap
cd $snap
for p in $(seq -f "C%02g" 1 20); do ./check $p --no-evidence --out $out/ev > $out/q_$p.txt 2>&1; echo "$p exit=$?"; done > $out/quick.txt 2>&1
ls seeded | xargs -P 6 -I{} tools/seed_check.sh {} > $out/seeds.txt 2>&1
tools/rf_all.sh > $out/rf.txt 2>&1
rm -rf $snap
echo done > $out/done
