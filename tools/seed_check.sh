#!/bin/bash
V=${VERIF:-/verif}
# tools/seed_check.sh <seed-name> [ids...] : run quick checks against an exported copy of /repo HEAD with the seed's patch applied
n=$1; shift
d=$(mktemp -d /tmp/seedchk.XXXXXX)
git -C /repo archive HEAD | tar -x -C $d
(cd $d && git apply --whitespace=nowarn $V/seeded/$n/patch.diff) || { echo "apply failed"; rm -rf $d; exit 3; }
ids=${@:-$(/venv/bin/python -c "import json;print(json.load(open('$V/seeded/$n/meta.json'))['breaks_property'])")}
for p in $ids; do timeout 900 $V/check $p --no-evidence --out $d/_out --repo $d > $d/_$p.txt 2>&1; rc=$?; echo "$n $p exit=$rc $(grep -E '^  \[' $d/_$p.txt | head -2 | cut -c1-260 | tr '\n' '|')"; done
rm -rf $d
