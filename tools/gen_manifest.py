#!/venv/bin/python
"""Regenerate /verif/MANIFEST.json from sa/claims.py (keeps the manifest valid at all times)."""
import json
import os
import sys

HERE = os.path.dirname(os.path.dirname(os.path.abspath(__file__)))
sys.path.insert(0, HERE)
from sa import claims  # noqa: E402

ids = [json.loads(l)["id"] for l in open(os.path.join(HERE, "properties.jsonl"))]
checks, na = [], []
for pid in ids:
    c = claims.CLAIMS.get(pid)
    if c is None:
        na.append({"property_id": pid, "reason": claims.NOT_APPLICABLE.get(pid, claims.NOT_BUILT)})
        continue
    checks.append(
        {
            "property_id": pid,
            "quick_cmd": f"./check {pid} --tier quick",
            "thorough_cmd": f"./check {pid} --tier thorough",
            "evidence_file": f"/verif/evidence/{pid}.json",
            "replay_cmd_template": f"./check {pid} --replay {{path}}",
            "engine": "sa",
            "level_claimed": {"category": "other", "text": c["text"], "design_ref": c["ref"]},
            "level_note": c["note"],
            "technique": c["technique"],
        }
    )
man = {
    "version": 1,
    "setup_cmd": "chmod +x /verif/check && /venv/bin/python -c \"import ast, sys; sys.path.insert(0, '/verif'); import sa.core.guards, sa.core.fde\"",
    "hooks": {
        "guard": "CSPUZ_VERIF",
        "enable": "no hooks: the checks read /repo's source text only; nothing in /repo is instrumented",
        "baseline_off_cmd": "cd /repo && /venv/bin/python -m pytest -ra -q -p no:cacheprovider --timeout=900 --continue-on-collection-errors",
        "source_commits": [],
        "add_only": True,
    },
    "engines": [
        {
            "name": "sa",
            "path": "/verif/sa",
            "serves_properties": [c["property_id"] for c in checks],
            "kind_free_text": "repository-specific static analyser (stdlib ast): guard-fact walker, Fourier-Motzkin "
            "entailment, finite-domain evaluation of source expressions, row/column kind inference, call graph",
        }
    ],
    "checks": checks,
    "not_applicable": na,
    "notes": "exit 0 = all obligations discharged or listed in known_findings.json; exit 1 = VIOLATION; "
    "exit 2 = ANALYSIS-ERROR (anchor vanished / coverage floor undercut / analyser failure), never a verdict.",
}
with open(os.path.join(HERE, "MANIFEST.json"), "w") as f:
    json.dump(man, f, indent=1)
    f.write("\n")
print(f"claimed {len(checks)}, not_applicable {len(na)}")
