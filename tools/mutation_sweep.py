#!/venv/bin/python
"""tools/mutation_sweep.py <repo-relative file> <property ids...> [--func NAME] [--limit N] [--jobs N] [--ops 2]

Generated (not hand-written) one-site mutations of a repository file, applied in memory (Repo overrides), each run through the
quick rules of the given properties.  Prints the mutants that NO rule reports (exit 0 everywhere) - each is either an equivalent
rewrite or a gap to look at - and the ones that only make the analysis undecided (exit 2).  A development aid: nothing here is
registered in MANIFEST.json.

Mutation operators (one site each): comparison operator swaps (< <=, > >=, == !=), `and` <-> `or`, integer literal +-1 (0, 1, 2),
deletion of an expression statement that is a call (`solver.ensure(...)`, `x.append(...)`), swap of the names height/width and y/x
at a single occurrence, `- 1` <-> `+ 1` in index arithmetic, negation dropped (`~a` -> `a`, `not a` -> `a`).
"""
import ast
import importlib
import os
import shutil
import sys
import tempfile
from concurrent.futures import ProcessPoolExecutor

VERIF = os.path.dirname(os.path.dirname(os.path.abspath(__file__)))
sys.path.insert(0, VERIF)
from sa.core.findings import Report  # noqa: E402
from sa.core.loader import AnalysisError, Repo  # noqa: E402

ROOT = "/repo"
OPS = 1
SWAP_CMP = {ast.Lt: ast.LtE, ast.LtE: ast.Lt, ast.Gt: ast.GtE, ast.GtE: ast.Gt, ast.Eq: ast.NotEq, ast.NotEq: ast.Eq}
SWAP_NAME = {"height": "width", "width": "height", "y": "x", "x": "y"}


def sites(src: str, only_func):
    """yields (description, new source)"""
    tree = ast.parse(src)
    lines = src.splitlines(True)
    offs = [0]
    for ln in lines:
        offs.append(offs[-1] + len(ln))

    def span(n):
        return offs[n.lineno - 1] + n.col_offset, offs[n.end_lineno - 1] + n.end_col_offset

    def within(n):
        if only_func is None:
            return True
        return any(isinstance(p, (ast.FunctionDef,)) and p.name == only_func for p in parents.get(id(n), []))

    parents = {}

    def walk(n, stack):
        parents[id(n)] = list(stack)
        for c in ast.iter_child_nodes(n):
            walk(c, stack + [n])

    walk(tree, [])
    # byte offsets vs str offsets: the repo is ASCII in code positions we touch; guard anyway
    if any(ord(ch) > 127 for ch in src):
        enc = src.encode("utf-8")

        def sub(a, b, text):
            return (enc[:a] + text.encode("utf-8") + enc[b:]).decode("utf-8")

        def get(a, b):
            return enc[a:b].decode("utf-8")

        offs2 = [0]
        for ln in lines:
            offs2.append(offs2[-1] + len(ln.encode("utf-8")))
        offs[:] = offs2
    else:
        def sub(a, b, text):
            return src[:a] + text + src[b:]

        def get(a, b):
            return src[a:b]

    if OPS == 2:
        # second generation: argument swaps, range/slice bounds, fold_and <-> fold_or, min <-> max, & <-> |, + <-> - between
        # non-constants, receiver/argument of .then swapped, continue <-> break, condition replaced by a constant, == -> <= / >=,
        # one element dropped from a list/tuple display
        SWAP_CALL = {"fold_or": "fold_and", "fold_and": "fold_or", "min": "max", "max": "min", "any": "all", "all": "any"}
        for n in ast.walk(tree):
            if not hasattr(n, "lineno") or not within(n):
                continue
            where = f"L{n.lineno}"
            if isinstance(n, ast.Call):
                if len(n.args) >= 2 and not any(isinstance(a, ast.Starred) for a in n.args):
                    for k in range(len(n.args) - 1):
                        a0, b0 = span(n.args[k])
                        a1, b1 = span(n.args[k + 1])
                        t0, t1 = get(a0, b0), get(a1, b1)
                        if t0 != t1:
                            yield f"{where} swap args {k},{k + 1}: {ast.unparse(n)[:60]}", sub(a0, b1, t1 + get(b0, a1) + t0)
                if isinstance(n.func, ast.Name) and n.func.id in SWAP_CALL:
                    a, b = span(n.func)
                    yield f"{where} {n.func.id}->{SWAP_CALL[n.func.id]}: {ast.unparse(n)[:50]}", sub(a, b, SWAP_CALL[n.func.id])
                if isinstance(n.func, ast.Name) and n.func.id == "range" and 1 <= len(n.args) <= 2:
                    a, b = span(n.args[-1])
                    yield f"{where} range end -1: {ast.unparse(n)[:50]}", sub(a, b, "(" + get(a, b) + ") - 1")
                    yield f"{where} range end +1: {ast.unparse(n)[:50]}", sub(a, b, "(" + get(a, b) + ") + 1")
                    if len(n.args) == 1:
                        yield f"{where} range start 1: {ast.unparse(n)[:50]}", sub(a, b, "1, " + get(a, b))
                    else:
                        a, b = span(n.args[0])
                        yield f"{where} range start +1: {ast.unparse(n)[:50]}", sub(a, b, "(" + get(a, b) + ") + 1")
                if isinstance(n.func, ast.Attribute) and n.func.attr == "then" and len(n.args) == 1:
                    ra, rb = span(n.func.value)
                    aa, ab = span(n.args[0])
                    ca, cb = span(n)
                    yield f"{where} then swapped: {ast.unparse(n)[:60]}", sub(ca, cb, "(" + get(aa, ab) + ").then(" + get(ra, rb) + ")")
            elif isinstance(n, ast.Slice):
                for part, nm in ((n.lower, "lower"), (n.upper, "upper")):
                    if part is not None:
                        a, b = span(part)
                        yield f"{where} slice {nm} +1: {get(a, b)[:30]}", sub(a, b, "(" + get(a, b) + ") + 1")
                        yield f"{where} slice {nm} -1: {get(a, b)[:30]}", sub(a, b, "(" + get(a, b) + ") - 1")
            elif isinstance(n, ast.BinOp) and isinstance(n.op, (ast.BitAnd, ast.BitOr, ast.Add, ast.Sub)) and not isinstance(n.right, ast.Constant):
                _, lb = span(n.left)
                ra, _ = span(n.right)
                optxt = get(lb, ra)
                old, new = {ast.BitAnd: ("&", "|"), ast.BitOr: ("|", "&"), ast.Add: ("+", "-"), ast.Sub: ("-", "+")}[type(n.op)]
                if optxt.count(old) == 1 and "(" not in optxt and ")" not in optxt:
                    yield f"{where} {old}->{new}: {ast.unparse(n)[:60]}", sub(lb, ra, optxt.replace(old, new))
            elif isinstance(n, (ast.Continue, ast.Break)):
                a, b = span(n)
                yield f"{where} {'continue->break' if isinstance(n, ast.Continue) else 'break->continue'}", sub(a, b, "break" if isinstance(n, ast.Continue) else "continue")
            elif isinstance(n, (ast.If, ast.IfExp)) and not isinstance(n.test, ast.Constant):
                a, b = span(n.test)
                yield f"{where} cond->True: {get(a, b)[:50]}", sub(a, b, "True")
                yield f"{where} cond->False: {get(a, b)[:50]}", sub(a, b, "False")
            elif isinstance(n, ast.Compare) and len(n.ops) == 1 and isinstance(n.ops[0], ast.Eq):
                _, lb = span(n.left)
                ra, _ = span(n.comparators[0])
                optxt = get(lb, ra)
                if optxt.count("==") == 1:
                    yield f"{where} cmp ==-><=: {ast.unparse(n)[:60]}", sub(lb, ra, optxt.replace("==", "<="))
                    yield f"{where} cmp ==->>=: {ast.unparse(n)[:60]}", sub(lb, ra, optxt.replace("==", ">="))
            elif isinstance(n, (ast.List, ast.Tuple)) and len(n.elts) >= 2 and isinstance(n.ctx, ast.Load) and len(n.elts) <= 8:
                a0, _ = span(n.elts[-2])
                _, b0 = span(n.elts[-2])
                a1, b1 = span(n.elts[-1])
                yield f"{where} drop last element: {ast.unparse(n)[:50]}", sub(b0, b1, "")
        return
    for n in ast.walk(tree):
        if not hasattr(n, "lineno") or not within(n):
            continue
        where = f"L{n.lineno}"
        if isinstance(n, ast.Compare) and len(n.ops) == 1 and type(n.ops[0]) in SWAP_CMP:
            a, _ = span(n.left)
            _, lb = span(n.left)
            ra, _ = span(n.comparators[0])
            optxt = get(lb, ra)
            sym = {ast.Lt: "<", ast.LtE: "<=", ast.Gt: ">", ast.GtE: ">=", ast.Eq: "==", ast.NotEq: "!="}
            old, new = sym[type(n.ops[0])], sym[SWAP_CMP[type(n.ops[0])]]
            if optxt.count(old) == 1:
                yield f"{where} cmp {old}->{new}: {ast.unparse(n)[:60]}", sub(lb, ra, optxt.replace(old, new))
        elif isinstance(n, ast.BoolOp) and len(n.values) == 2:
            _, lb = span(n.values[0])
            ra, _ = span(n.values[1])
            optxt = get(lb, ra)
            old, new = ("and", "or") if isinstance(n.op, ast.And) else ("or", "and")
            if optxt.count(old) == 1:
                yield f"{where} {old}->{new}: {ast.unparse(n)[:60]}", sub(lb, ra, optxt.replace(old, new))
        elif isinstance(n, ast.Constant) and isinstance(n.value, int) and not isinstance(n.value, bool) and n.value in (0, 1, 2):
            a, b = span(n)
            if get(a, b) == str(n.value):
                yield f"{where} const {n.value}->{n.value + 1}", sub(a, b, str(n.value + 1))
                if n.value > 0:
                    yield f"{where} const {n.value}->{n.value - 1}", sub(a, b, str(n.value - 1))
        elif isinstance(n, ast.Expr) and isinstance(n.value, ast.Call):
            a, b = span(n)
            d = ast.unparse(n.value.func)
            if d.endswith("ensure") or d.endswith(".append") or d.endswith(".add") or d.endswith("add_edge"):
                yield f"{where} delete: {ast.unparse(n)[:70]}", sub(a, b, "pass")
        elif isinstance(n, ast.Name) and n.id in SWAP_NAME and isinstance(n.ctx, ast.Load):
            a, b = span(n)
            if get(a, b) == n.id:
                yield f"{where} name {n.id}->{SWAP_NAME[n.id]}", sub(a, b, SWAP_NAME[n.id])
        elif isinstance(n, ast.BinOp) and isinstance(n.op, (ast.Add, ast.Sub)) and isinstance(n.right, ast.Constant) and n.right.value == 1:
            _, lb = span(n.left)
            ra, _ = span(n.right)
            optxt = get(lb, ra)
            old, new = ("+", "-") if isinstance(n.op, ast.Add) else ("-", "+")
            if optxt.count(old) == 1:
                yield f"{where} {old}1->{new}1: {ast.unparse(n)[:50]}", sub(lb, ra, optxt.replace(old, new))
        elif isinstance(n, ast.UnaryOp) and isinstance(n.op, (ast.Invert, ast.Not)):
            a, b = span(n)
            oa, ob = span(n.operand)
            yield f"{where} drop negation: {ast.unparse(n)[:50]}", sub(a, b, "(" + get(oa, ob) + ")")


def run_one(args):
    file, desc, new_src, props = args
    try:
        ast.parse(new_src)
    except SyntaxError:
        return desc, "stale", {}
    res = {}
    for prop in props:
        tmp = tempfile.mkdtemp(prefix="cspuz-sw-")
        try:
            rep = Report(prop, "quick", 0, ROOT, tmp)
            err = None
            try:
                repo = Repo(ROOT, {file: new_src})
                importlib.import_module(f"sa.rules.{prop.lower()}").run(repo, rep)
            except AnalysisError as ex:
                err = str(ex)[:120]
            except RecursionError:
                err = "recursion"
            except Exception as ex:  # analyser crash = exit 2
                err = f"{type(ex).__name__}: {ex}"[:120]
            if rep.findings:
                res[prop] = ("1", sorted({f.rule for f in rep.findings})[:3])
            elif err or rep.undecided:
                res[prop] = ("2", (err or rep.undecided[0])[:140])
            else:
                res[prop] = ("0", "")
        finally:
            shutil.rmtree(tmp, ignore_errors=True)
    return desc, "done", res


def main():
    argv = sys.argv[1:]
    only_func = None
    limit = None
    jobs = 14
    pos = []
    i = 0
    while i < len(argv):
        if argv[i] == "--func":
            only_func = argv[i + 1]
            i += 2
        elif argv[i] == "--limit":
            limit = int(argv[i + 1])
            i += 2
        elif argv[i] == "--ops":
            global OPS
            OPS = int(argv[i + 1])
            i += 2
        elif argv[i] == "--jobs":
            jobs = int(argv[i + 1])
            i += 2
        else:
            pos.append(argv[i])
            i += 1
    file, props = pos[0], pos[1:]
    src = open(os.path.join(ROOT, file), encoding="utf-8").read()
    muts = list(sites(src, only_func))
    if limit:
        import random
        random.Random(1).shuffle(muts)
        muts = muts[:limit]
    print(f"{len(muts)} mutants of {file}{' in ' + only_func if only_func else ''} x {props}")
    with ProcessPoolExecutor(max_workers=jobs) as ex:
        out = list(ex.map(run_one, [(file, d, s, props) for d, s in muts]))
    killed = [o for o in out if o[1] == "done" and any(v[0] == "1" for v in o[2].values())]
    undec = [o for o in out if o[1] == "done" and not any(v[0] == "1" for v in o[2].values()) and any(v[0] == "2" for v in o[2].values())]
    alive = [o for o in out if o[1] == "done" and all(v[0] == "0" for v in o[2].values())]
    print(f"reported (exit 1): {len(killed)}   undecided only (exit 2): {len(undec)}   SILENT: {len(alive)}   stale: {sum(1 for o in out if o[1] != 'done')}")
    print("--- silent (equivalent or a gap):")
    for d, _s, _r in alive:
        print("  ", d)
    print("--- undecided only:")
    for d, _s, r in undec:
        print("  ", d, "::", next(v[1] for v in r.values() if v[0] == "2"))


if __name__ == "__main__":
    main()
