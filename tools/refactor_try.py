#!/venv/bin/python
"""tools/refactor_try.py <patch.diff> : apply a behaviour-preserving refactoring to /repo, run every check, restore. Any exit != 0 is a weakness
(1 = false alarm, 2 = the analysis could not follow the refactoring)."""
import json, os, subprocess, sys, tempfile
REPO = "/repo"; VERIF = os.path.dirname(os.path.dirname(os.path.abspath(__file__)))
def sh(c, cwd=None, t=1200):
    p = subprocess.run(c, shell=True, cwd=cwd, capture_output=True, text=True, timeout=t); return p.returncode, p.stdout + p.stderr
patch = sys.argv[1]
rc, o = sh("git status --porcelain", REPO)
if o.strip(): print("repo not clean"); sys.exit(2)
tmp = tempfile.mkdtemp(prefix="rftry-")
res = {}
try:
    rc, o = sh(f"git apply --whitespace=nowarn {patch}", REPO)
    if rc: print("apply failed", o[-300:]); sys.exit(1)
    rc, o = sh("/venv/bin/python -m pytest -q -p no:cacheprovider --timeout=900 --continue-on-collection-errors 2>&1 | tail -1", REPO); res["suite"] = o.strip()
    ids = [json.loads(l)["id"] for l in open(os.path.join(VERIF, "properties.jsonl"))]
    procs = {p: subprocess.Popen(f"timeout 900 ./check {p} --no-evidence --out {tmp}", shell=True, cwd=VERIF, stdout=subprocess.PIPE, stderr=subprocess.STDOUT, text=True) for p in ids}
    for p, pr in procs.items():
        out, _ = pr.communicate()
        if pr.returncode != 0:
            lines = [l for l in out.splitlines() if l.startswith("  [") or l.startswith("ANALYSIS") or l.startswith("UNDECIDED")]
            res[p] = {"exit": pr.returncode, "lines": [l[:500] for l in lines[:4]]}
finally:
    sh("git reset -q --hard HEAD && git clean -fdq -- cspuz bench", REPO); sh(f"rm -rf {tmp}")
print(json.dumps(res, indent=1, ensure_ascii=False))
