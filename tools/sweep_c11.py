#!/venv/bin/python
"""tools/sweep_c11.py <puzzle> [<puzzle> ...] [--tier quick|thorough] [--jobs N]

Focused variant of mutation_sweep.py for C11: generated one-site mutants of solve_<puzzle> in cspuz/puzzle/<puzzle>.py, each run
through that puzzle's structural rules (AKR / IDX / DK) and that puzzle's PZ-X instances only (not the whole of C11), in memory.
Prints the mutants no rule reports (equivalent rewrite, or an instance the PZ-X list lacks) and those that only leave the analysis
undecided.  A development aid: nothing here is registered in MANIFEST.json.
"""
import os
import sys
from concurrent.futures import ProcessPoolExecutor

VERIF = os.path.dirname(os.path.dirname(os.path.abspath(__file__)))
sys.path.insert(0, VERIF)
sys.path.insert(0, os.path.join(VERIF, "tools"))
from mutation_sweep import sites  # noqa: E402

ROOT = "/repo"


def run_one(args):
    name, desc, new_src, tier = args
    from sa.rules import c11, pzx

    file = f"cspuz/puzzle/{name}.py"
    ov = {file: new_src}
    try:
        compile(new_src, file, "exec")
    except SyntaxError:
        return desc, "stale", ""
    out = []
    und = []
    try:
        st, items, _n = c11._job((ROOT, ov, name))
        if st == "undecided":
            und.append(items[0][2][:120])
        else:
            out += [r for r, _c, _m in items]
    except Exception as ex:  # analyser failure = exit 2
        und.append(f"{type(ex).__name__}: {ex}"[:120])
    insts = pzx.instances(tier)
    for idx, (nm, _a, _k, _r) in enumerate(insts):
        if nm != name:
            continue
        try:
            st, msg, _n = pzx._job((ROOT, ov, idx, tier))
        except Exception as ex:
            st, msg = "undecided", f"{type(ex).__name__}: {ex}"
        if st == "bad":
            out.append("PZ-X")
            break
        if st == "undecided":
            und.append(msg[:120])
    if out:
        return desc, "reported", ",".join(sorted(set(out)))
    if und:
        return desc, "undecided", und[0]
    return desc, "silent", ""


def main():
    argv = sys.argv[1:]
    tier, jobs, names = "quick", 16, []
    i = 0
    while i < len(argv):
        if argv[i] == "--tier":
            tier = argv[i + 1]
            i += 2
        elif argv[i] == "--jobs":
            jobs = int(argv[i + 1])
            i += 2
        else:
            names.append(argv[i])
            i += 1
    for name in names:
        src = open(os.path.join(ROOT, f"cspuz/puzzle/{name}.py"), encoding="utf-8").read()
        muts = list(sites(src, f"solve_{name}"))
        with ProcessPoolExecutor(max_workers=jobs) as ex:
            res = list(ex.map(run_one, [(name, d, s, tier) for d, s in muts]))
        rep = [r for r in res if r[1] == "reported"]
        und = [r for r in res if r[1] == "undecided"]
        sil = [r for r in res if r[1] == "silent"]
        print(f"== {name}: {len(muts)} mutants, reported {len(rep)}, undecided only {len(und)}, SILENT {len(sil)}", flush=True)
        for d, _s, _m in sil:
            print("   silent:", d)
        for d, _s, m in und:
            print("   undecided:", d, "::", m)


if __name__ == "__main__":
    main()
