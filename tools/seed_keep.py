#!/venv/bin/python
"""tools/seed_keep.py <src-seed-dir> <name> <breaks-property> [extra property ids to run]
Confirms the regression with seed_try.py and stores it under /verif/seeded/<name>/ (patch.diff, demo.py, NOTES.md, meta.json)."""
import json, os, shutil, subprocess, sys
VERIF = os.path.dirname(os.path.dirname(os.path.abspath(__file__)))
src, name, prop = sys.argv[1], sys.argv[2], sys.argv[3]
props = [prop] + sys.argv[4:]
r = subprocess.run([os.path.join(VERIF, "tools/seed_try.py"), src] + props, capture_output=True, text=True, timeout=3000)
txt = r.stdout
try:
    res = json.loads(txt[txt.index("{"):])
except ValueError:
    print(txt, r.stderr); sys.exit(2)
ok = res.get("demo_clean_rc") == 0 and res.get("apply_rc") == 0 and res.get("demo_patched_rc", 0) != 0 and "558 passed" in res.get("suite", "") and "68 failed" in res.get("suite", "") and res.get("repo_clean_after")
print(json.dumps({k: res[k] for k in ("demo_clean_rc", "demo_patched_rc", "suite", "checks", "repo_clean_after") if k in res}, indent=1)[:2500])
if not ok:
    print("NOT CONFIRMED - not kept"); sys.exit(1)
dst = os.path.join(VERIF, "seeded", name)
os.makedirs(dst, exist_ok=True)
for f in ("patch.diff", "demo.py", "NOTES.md"):
    if os.path.exists(os.path.join(src, f)) and os.path.abspath(os.path.join(src, f)) != os.path.abspath(os.path.join(dst, f)):
        shutil.copy(os.path.join(src, f), os.path.join(dst, f))
notes = open(os.path.join(src, "NOTES.md")).read() if os.path.exists(os.path.join(src, "NOTES.md")) else ""
meta = {
    "breaks_property": prop,
    "written_by": "fresh sub-agent given only the property text and a scratch worktree",
    "needs_to_manifest": notes[:1500],
    "confirmed": {"demo_on_clean_tree_exit": res["demo_clean_rc"], "demo_with_patch_exit": res["demo_patched_rc"],
                  "demo_with_patch_tail": res.get("demo_patched_tail"), "pinned_suite_with_patch": res["suite"]},
    "ran": ["export of /repo HEAD to a scratch directory R (git archive)", f"PYTHONPATH=R /venv/bin/python seeded/{name}/demo.py   # clean: exit 0",
            f"git -C R apply seeded/{name}/patch.diff", f"PYTHONPATH=R /venv/bin/python seeded/{name}/demo.py   # patched: exit != 0",
            "pinned pytest command in R", *[f"./check {p} --repo R" for p in props], "rm -rf R"],
    "checks": {p: {"exit": c["exit"], "reported": c["lines"][:2]} for p, c in res["checks"].items()},
    "caught_by": [p for p, c in res["checks"].items() if c["exit"] == 1],
}
old = os.path.join(dst, "meta.json")
if os.path.exists(old):
    prev = json.load(open(old))
    for k in ("note", "needs_to_manifest"):
        if prev.get(k) and (k == "note" or not meta.get(k)):
            meta[k] = prev[k]
json.dump(meta, open(os.path.join(dst, "meta.json"), "w"), indent=1, ensure_ascii=False)
print("kept as", dst, "caught_by", meta["caught_by"])
