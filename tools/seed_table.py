#!/venv/bin/python
"""Rewrite the table after <!-- SEED-TABLE --> in DESIGN.md from seeded/*/meta.json."""
import glob, json, os, re
V = os.path.dirname(os.path.dirname(os.path.abspath(__file__)))
rows = []
for m in sorted(glob.glob(os.path.join(V, "seeded", "*", "meta.json"))):
    d = json.load(open(m))
    name = os.path.basename(os.path.dirname(m))
    rules = []
    for p, c in d.get("checks", {}).items():
        for l in c.get("reported", []):
            mm = re.search(r"\[([A-Z0-9-]+)\]", l)
            if mm and c.get("exit") == 1:
                rules.append(f"{p}:{mm.group(1)}")
    caught = ", ".join(sorted(set(rules))) or ("; ".join(f"{p}: exit {c['exit']}" for p, c in d.get("checks", {}).items()))
    note = d.get("note", "")
    rows.append(f"| `{name}` | {d['breaks_property']} | {caught} | {note} |")
table = "\n".join(["| seeded change | breaks | reported by (property:rule) | note |", "|---|---|---|---|"] + rows)
p = os.path.join(V, "DESIGN.md")
s = open(p).read()
i = s.index("<!-- SEED-TABLE -->")
s = s[: i] + "<!-- SEED-TABLE -->\n\n" + table + "\n"
open(p, "w").write(s)
print(len(rows), "rows")
