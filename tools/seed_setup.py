#!/venv/bin/python
"""tools/seed_setup.py <round-number> <letter> [ids...] : one scratch worktree per property under /tmp/wt/r<round>-cNN with
_seed/PROPERTY.txt (the property's text and the one-line names of the changes already submitted for it - nothing about /verif's checks)
and the filled prompt in /tmp/wt/prompt_r<round>_cNN.txt"""
import json, os, subprocess, sys

rnd, letter = sys.argv[1], sys.argv[2]
ids = sys.argv[3:] or [f"C{k:02d}" for k in range(1, 21)]
props = {json.loads(line)["id"]: json.loads(line) for line in open("/verif/properties.jsonl")}
tmpl = open("/verif/tools/prompts/seed_prompt.txt").read()
EXTRA = os.environ.get("SEED_EXTRA")
if EXTRA:
    tmpl = tmpl[: tmpl.index("Extra guidance for this round:")] + "Extra guidance for this round: " + EXTRA + "\n"
os.makedirs("/tmp/wt", exist_ok=True)
for pid in ids:
    p = props[pid]
    wt = f"/tmp/wt/r{rnd}-{pid.lower()}"
    subprocess.run(["git", "-C", "/repo", "worktree", "add", "--detach", "-f", wt, "HEAD"], check=True, capture_output=True)
    os.makedirs(wt + "/_seed", exist_ok=True)
    prev = sorted(d for d in os.listdir("/verif/seeded") if d.split("-")[0].rstrip("bcdefghijklmnop") == pid.lower())
    with open(wt + "/_seed/PROPERTY.txt", "w") as f:
        f.write(f"{pid}: {p['title']}\n\n{p['statement']}\n\nQuantified over: {p['quantifier']['text']}\n\nWhy tests cannot settle it: {p['why_tests_cant']}\n\n")
        if p.get("anchors"):
            f.write("Anchors: " + json.dumps(p["anchors"]) + "\n\n")
        f.write("Changes already submitted for this property in earlier rounds (do something DIFFERENT in mechanism and location):\n")
        for d in prev:
            f.write("  - " + d.split("-", 1)[1].replace("-", " ") + "\n")
    open(f"/tmp/wt/prompt_r{rnd}_{pid.lower()}.txt", "w").write(tmpl.replace("{WT}", wt))
    print(wt)
