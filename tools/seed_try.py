#!/venv/bin/python
"""Confirm and evaluate an independently written regression.

usage: tools/seed_try.py <seed-dir> <property-id> [more property ids to run]
  <seed-dir> contains patch.diff and demo.py (and NOTES.md).
Steps (default: on an exported copy of /repo HEAD under /tmp, removed afterwards; with --in-place: in /repo itself, restored afterwards):
  1. demo on the clean tree must exit 0
  2. git apply patch; demo must exit non-zero; the pinned test suite must still give 558 passed / 68 failed
  3. run ./check <id> --no-evidence [--repo <copy>] for each property id and record exit code + VIOLATION lines
  4. remove the copy (in place: git reset --hard, and verify the tree is clean)
Prints a JSON summary.
"""
import json
import os
import subprocess
import sys
import tempfile

REPO = "/repo"
VERIF = os.path.dirname(os.path.dirname(os.path.abspath(__file__)))


def sh(cmd, cwd=None, timeout=900, env=None):
    e = dict(os.environ)
    if env:
        e.update(env)
    p = subprocess.run(cmd, shell=True, cwd=cwd, capture_output=True, text=True, timeout=timeout, env=e)
    return p.returncode, (p.stdout + p.stderr)


def main() -> int:
    args = [a for a in sys.argv[1:] if a != "--in-place"]
    in_place = "--in-place" in sys.argv
    seed, props = os.path.abspath(args[0]), args[1:]
    global REPO
    export = None
    if not in_place:
        export = tempfile.mkdtemp(prefix="seedrepo-")
        rc, o = sh(f"git -C /repo archive HEAD | tar -x -C {export} && cd {export} && git init -q && git add -A && git -c user.email=x@x -c user.name=x commit -qm base", timeout=300)
        if rc != 0:
            print("export failed", o[-300:])
            return 2
        REPO = export
    patch = os.path.join(seed, "patch.diff")
    demo = os.path.join(seed, "demo.py")
    out = {"seed": seed, "properties": props}
    rc, o = sh("git status --porcelain", cwd=REPO)
    if o.strip():
        print("refusing: /repo is not clean:\n" + o)
        return 2
    tmp = tempfile.mkdtemp(prefix="seedtry-")
    try:
        rc, o = sh(f"PYTHONPATH={REPO} /venv/bin/python {demo}", cwd=REPO, timeout=600)
        out["demo_clean_rc"] = rc
        out["demo_clean_tail"] = o.strip().splitlines()[-2:]
        rc, o = sh(f"git apply --whitespace=nowarn {patch}", cwd=REPO)
        out["apply_rc"] = rc
        if rc != 0:
            out["apply_err"] = o[-400:]
            print(json.dumps(out, indent=1))
            if export:
                sh(f"rm -rf {export}")
            return 1
        rc, o = sh(f"PYTHONPATH={REPO} /venv/bin/python {demo}", cwd=REPO, timeout=600)
        out["demo_patched_rc"] = rc
        out["demo_patched_tail"] = o.strip().splitlines()[-3:]
        rc, o = sh("/venv/bin/python -m pytest -q -p no:cacheprovider --timeout=900 --continue-on-collection-errors 2>&1 | tail -1", cwd=REPO)
        out["suite"] = o.strip()
        out["checks"] = {}
        for p in props:
            rc, o = sh(f"timeout 600 ./check {p} --no-evidence --out {tmp} --repo {REPO}", cwd=VERIF, timeout=700)
            lines = [l for l in o.splitlines() if l.startswith("  [") or l.startswith("ANALYSIS-ERROR") or l.startswith("VIOLATION")]
            out["checks"][p] = {"exit": rc, "lines": [l[:400] for l in lines if not l.startswith("VIOLATION")][:4]}
    finally:
        sh("git reset -q --hard HEAD && git clean -fdq -- cspuz bench sugar_extension tests", cwd=REPO)
        sh(f"rm -rf {tmp}")
    rc, o = sh("git status --porcelain", cwd=REPO)
    out["repo_clean_after"] = not o.strip()
    if export:
        sh(f"rm -rf {export}")
    rc, o = sh("git status --porcelain", cwd="/repo")
    out["repo_clean_after"] = out["repo_clean_after"] and not o.strip()
    print(json.dumps(out, indent=1, ensure_ascii=False))
    return 0


if __name__ == "__main__":
    sys.exit(main())
