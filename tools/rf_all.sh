#!/bin/bash
V=${VERIF:-/verif}
# tools/rf_all.sh : silence test - every kept behaviour-preserving refactoring applied to an exported copy of /repo HEAD; all 20 quick checks must exit 0
for r in $V/refactorings/*/; do
  n=$(basename $r); d=$(mktemp -d /tmp/rfall.XXXXXX)
  git -C /repo archive HEAD | tar -x -C $d
  if ! (cd $d && git apply --whitespace=nowarn $r/patch.diff 2>/dev/null); then echo "== $n: patch does not apply to HEAD any more"; rm -rf $d; continue; fi
  echo "== $n"; $V/tools/rf_run.sh $d; rm -rf $d
done
